import Proofs.Lemmas.Verify
import InToto.Honest
/-!
# An honestly carried out supply chain verifies (C11, second half; C04 completeness)

Every step of the layout is performed by at least `threshold` of its authorised
functionaries (whose keys may list subkeys, as gpg bundles do); the link file of each
is where `in_toto_verify` looks for it - under the id of the authorised key or under
the id of one of its subkeys, and under no other of those ids -, is signed with the
key the layout lists (by the key itself or by the subkey), and names the step;
authorised functionaries who took no part left no file; if the step asks for more
than one link, all of them report what the first reports; the rules of the layout pass on those links
(a "layout consistent with what was done": see `C04_rules_iff` for when a closed
rule list passes); the inspections run and their rules pass. Then verification
succeeds and returns the summary link of the chain — for any number of steps.
-/
namespace InToto

/-! ## Dictionaries with distinct keys -/

theorem Dict.insert_of_not_mem {α : Type} : ∀ (d : Dict Str α) (k : Str) (v : α), k ∉ d.map (·.1) →
    Dict.insert d k v = d ++ [(k, v)]
  | [], _, _, _ => rfl
  | (k', v') :: r, k, v, h => by
    simp only [List.map_cons, List.mem_cons, not_or] at h
    have hne : ¬ k' = k := fun e => h.1 e.symm
    simp only [Dict.insert, hne, if_false, List.cons_append, List.cons.injEq, true_and]
    exact Dict.insert_of_not_mem r k v h.2

theorem Dict.get?_append_single {α : Type} (d : Dict Str α) (k : Str) (v : α) (h : k ∉ d.map (·.1)) :
    Dict.get? (d ++ [(k, v)]) k = some v := by
  induction d with
  | nil => simp [Dict.get?]
  | cons p r ih =>
    simp only [List.map_cons, List.mem_cons, not_or] at h
    have hne : ¬ p.1 = k := fun e => h.1 e.symm
    have := ih h.2
    simp only [Dict.get?, List.cons_append, List.find?_cons, hne, decide_false] at this ⊢
    exact this

theorem Dict.get?_map_of_mem {α β : Type} (f : α → Str) (g : α → β) : ∀ (l : List α) (a : α),
    a ∈ l → (l.map f).Nodup → Dict.get? (l.map (fun x => (f x, g x))) (f a) = some (g a)
  | x :: r, a, hmem, hnd => by
    simp only [List.map_cons, List.nodup_cons] at hnd
    by_cases hx : f x = f a
    · rcases List.mem_cons.mp hmem with rfl | hr
      · simp [Dict.get?]
      · exact absurd (hx ▸ List.mem_map_of_mem hr) hnd.1
    · rcases List.mem_cons.mp hmem with rfl | hr
      · exact absurd rfl hx
      · have := Dict.get?_map_of_mem f g r a hr hnd.2
        simp only [Dict.get?, List.map_cons, List.find?_cons, hx, decide_false] at this ⊢
        exact this

/-! ## What an honest step is -/

/-- One functionary's evidence is in place and validly signed: a link that names the step, or a
layout of its own whose verification (`recur`: `in_toto_verify` one level down, with that
functionary's key, in the directory named after step and key) returns the summary link `f.lk`
and the trace `f.tr`. -/
structure HonestFunc (recur : Metadata → List (Str × JVal) → Str → Str → VerifyOut)
    (w : World) (l : Layout) (dir name : Str) (f : FuncRecord) : Prop where
  key_in_store : Dict.get? l.keys f.kid = some f.keyJ
  file_cand : f.fileId ∈ segOf l f.kid
  keyid_ok : keyidOf f.keyJ = .ok f.kid
  file_loads : loadFile w (pathJoin dir (linkFileName name f.fileId)) = some (.ok f.md)
  sig_ok : f.md.verifySignature w.S w.nowSec f.keyJ = .ok
  evidence : (f.md.getPayload = .ok (.link f.lk) ∧ f.lk.name = some name ∧ f.tr = []) ∨
    (∃ sl, f.md.getPayload = .ok (.layout sl) ∧
      recur f.md [(f.fileId, subKeyOf l f.fileId)] (pathJoin dir (sublayoutDirName name f.fileId)) name =
        { result := .ok f.lk, trace := f.tr })

theorem HonestFunc.payload_bound {recur : Metadata → List (Str × JVal) → Str → Str → VerifyOut} {w : World} {l : Layout} {dir name : Str} {f : FuncRecord} (h : HonestFunc recur w l dir name f) :
    ∃ p, f.md.getPayload = .ok p ∧ nameBound p name = true := by
  rcases h.evidence with ⟨hp, hn, _⟩ | ⟨sl, hp, _⟩
  · exact ⟨_, hp, by simp [nameBound, hn]⟩
  · exact ⟨_, hp, rfl⟩

/-- The authorised functionaries, in the order the step lists them, against the
records of those who took part: one who did not left no file under any of the ids
the verifier tries for that functionary; one who did left exactly one. -/
inductive HonestParts (recur : Metadata → List (Str × JVal) → Str → Str → VerifyOut)
    (w : World) (l : Layout) (dir name : Str) : List Str → List FuncRecord → Prop where
  | nil : HonestParts recur w l dir name [] []
  | skip {a : Str} {rest : List Str} {fs : List FuncRecord} :
      (∀ cid ∈ segOf l a, loadFile w (pathJoin dir (linkFileName name cid)) = none) →
      HonestParts recur w l dir name rest fs → HonestParts recur w l dir name (a :: rest) fs
  | take {a : Str} {rest : List Str} {f : FuncRecord} {fs : List FuncRecord} :
      f.kid = a → HonestFunc recur w l dir name f →
      (∀ cid ∈ segOf l a, cid ≠ f.fileId → loadFile w (pathJoin dir (linkFileName name cid)) = none) →
      HonestParts recur w l dir name rest fs → HonestParts recur w l dir name (a :: rest) (f :: fs)

/-- The step was carried out honestly by enough of its authorised functionaries. -/
structure HonestStep (recur : Metadata → List (Str × JVal) → Str → Str → VerifyOut)
    (w : World) (l : Layout) (dir : Str) (step : Step) (r : StepRecord) : Prop where
  name_eq : step.name = some r.name
  cands_nodup : (candidateIds l step).Nodup
  parts_ok : HonestParts recur w l dir r.name step.pubkeys r.parts
  nonempty : r.parts ≠ []
  enough : step.threshold ≤ (r.parts.length : Int)
  agree : step.threshold ≤ 1 ∨ allAgree r.chain = true

inductive HonestSteps (recur : Metadata → List (Str × JVal) → Str → Str → VerifyOut)
    (w : World) (l : Layout) (dir : Str) : List Step → List StepRecord → Prop where
  | nil : HonestSteps recur w l dir [] []
  | cons {step : Step} {rest : List Step} {r : StepRecord} {rs : List StepRecord} :
      HonestStep recur w l dir step r → HonestSteps recur w l dir rest rs → HonestSteps recur w l dir (step :: rest) (r :: rs)

theorem candidateIds_eq (l : Layout) (step : Step) : candidateIds l step = step.pubkeys.flatMap (segOf l) := rfl

/-! ## Where the records lie among the ids the verifier tries -/

theorem parts_fileIds_sublist {recur : Metadata → List (Str × JVal) → Str → Str → VerifyOut} {w : World} {l : Layout} {dir name : Str} :
    ∀ {pubkeys : List Str} {fs : List FuncRecord}, HonestParts recur w l dir name pubkeys fs →
    List.Sublist (fs.map (·.fileId)) (pubkeys.flatMap (segOf l))
  | _, _, .nil => List.Sublist.slnil
  | _, _, .skip _ h => by
    rw [List.flatMap_cons]
    exact (parts_fileIds_sublist h).trans (List.sublist_append_right _ _)
  | _, _, .take hk hf _ h => by
    rw [List.flatMap_cons, List.map_cons]
    have h1 : List.Sublist [_] (segOf l _) := List.singleton_sublist.mpr (hk ▸ hf.file_cand)
    exact List.Sublist.append h1 (parts_fileIds_sublist h)

theorem parts_kids_sublist {recur : Metadata → List (Str × JVal) → Str → Str → VerifyOut} {w : World} {l : Layout} {dir name : Str} :
    ∀ {pubkeys : List Str} {fs : List FuncRecord}, HonestParts recur w l dir name pubkeys fs →
    List.Sublist (fs.map (·.kid)) (pubkeys.flatMap (segOf l))
  | _, _, .nil => List.Sublist.slnil
  | _, _, .skip _ h => by
    rw [List.flatMap_cons]
    exact (parts_kids_sublist h).trans (List.sublist_append_right _ _)
  | _, _, .take (a := a) hk _ _ h => by
    rw [List.flatMap_cons, List.map_cons]
    have h1 : List.Sublist [a] (segOf l a) := List.singleton_sublist.mpr List.mem_cons_self
    rw [hk]
    exact List.Sublist.append h1 (parts_kids_sublist h)

theorem parts_honest {recur : Metadata → List (Str × JVal) → Str → Str → VerifyOut} {w : World} {l : Layout} {dir name : Str} :
    ∀ {pubkeys : List Str} {fs : List FuncRecord}, HonestParts recur w l dir name pubkeys fs →
    ∀ f ∈ fs, HonestFunc recur w l dir name f
  | _, _, .nil, _, hf => by cases hf
  | _, _, .skip _ h, f, hf => parts_honest h f hf
  | _, _, .take _ hfun _ h, g, hg => by
    rcases List.mem_cons.mp hg with rfl | hr
    · exact hfun
    · exact parts_honest h g hr

/-! ## Loading -/

theorem loadStepLinks_absent (w : World) (dir name : Str) : ∀ (ids : List Str) (acc : Dict Str Metadata),
    (∀ sid ∈ ids, loadFile w (pathJoin dir (linkFileName name sid)) = none) →
    loadStepLinks w dir name ids acc = .ok acc
  | [], _, _ => rfl
  | sid :: rest, acc, h => by
    simp only [loadStepLinks, h sid List.mem_cons_self]
    exact loadStepLinks_absent w dir name rest acc (fun x hx => h x (List.mem_cons_of_mem _ hx))

theorem loadStepLinks_append (w : World) (dir name : Str) : ∀ (ids1 ids2 : List Str) (acc : Dict Str Metadata),
    loadStepLinks w dir name (ids1 ++ ids2) acc =
      match loadStepLinks w dir name ids1 acc with
      | .ok a => loadStepLinks w dir name ids2 a
      | .error e => .error e
  | [], _, _ => rfl
  | cid :: rest, ids2, acc => by
    simp only [List.cons_append, loadStepLinks]
    cases loadFile w (pathJoin dir (linkFileName name cid)) with
    | none => exact loadStepLinks_append w dir name rest ids2 acc
    | some r =>
      cases r with
      | error e => rfl
      | ok md => exact loadStepLinks_append w dir name rest ids2 _

/-- Of the ids of one functionary exactly one has a file: one entry is added. -/
theorem loadStepLinks_seg (w : World) (dir name fid : Str) (md : Metadata)
    (hfile : loadFile w (pathJoin dir (linkFileName name fid)) = some (.ok md)) :
    ∀ (seg : List Str) (acc : Dict Str Metadata), seg.Nodup → fid ∈ seg →
    (∀ cid ∈ seg, cid ≠ fid → loadFile w (pathJoin dir (linkFileName name cid)) = none) →
    fid ∉ acc.map (·.1) →
    loadStepLinks w dir name seg acc = .ok (acc ++ [(fid, md)])
  | cid :: rest, acc, hnd, hmem, habs, hacc => by
    simp only [List.nodup_cons] at hnd
    by_cases hc : cid = fid
    · subst hc
      simp only [loadStepLinks, hfile, Dict.insert_of_not_mem acc cid md hacc]
      exact loadStepLinks_absent w dir name rest _ (fun x hx =>
        habs x (List.mem_cons_of_mem _ hx) (fun e => hnd.1 (e ▸ hx)))
    · simp only [loadStepLinks, habs cid List.mem_cons_self hc]
      have hm : fid ∈ rest := by
        rcases List.mem_cons.mp hmem with e | hr
        · exact absurd e.symm hc
        · exact hr
      exact loadStepLinks_seg w dir name fid md hfile rest acc hnd.2 hm
        (fun x hx => habs x (List.mem_cons_of_mem _ hx)) hacc

theorem honest_loadParts {recur : Metadata → List (Str × JVal) → Str → Str → VerifyOut} {w : World} {l : Layout} {dir name : Str} :
    ∀ {pubkeys : List Str} {fs : List FuncRecord}, HonestParts recur w l dir name pubkeys fs →
    ∀ (acc : Dict Str Metadata), (acc.map (·.1) ++ pubkeys.flatMap (segOf l)).Nodup →
    loadStepLinks w dir name (pubkeys.flatMap (segOf l)) acc = .ok (acc ++ fs.map (fun f => (f.fileId, f.md)))
  | _, _, .nil, acc, _ => by simp [loadStepLinks]
  | _, _, .skip (a := a) (rest := rest) habs h, acc, hnd => by
    rw [List.flatMap_cons, loadStepLinks_append, loadStepLinks_absent w dir name _ acc habs]
    simp only
    refine honest_loadParts h acc ?_
    rw [List.flatMap_cons] at hnd
    exact hnd.sublist (List.Sublist.append (List.Sublist.refl _) (List.sublist_append_right _ _))
  | _, _, .take (a := a) (rest := rest) (f := f) (fs := fs) hk hf habs h, acc, hnd => by
    rw [List.flatMap_cons] at hnd
    have hseg : (segOf l a).Nodup := ((List.nodup_append.mp hnd).2.1 |> List.nodup_append.mp).1
    have hmem : f.fileId ∈ segOf l a := hk ▸ hf.file_cand
    have hacc : f.fileId ∉ acc.map (·.1) := by
      intro hin
      exact (List.nodup_append.mp hnd).2.2 _ hin _ (List.mem_append_left _ hmem) rfl
    rw [List.flatMap_cons, loadStepLinks_append,
      loadStepLinks_seg w dir name f.fileId f.md hf.file_loads (segOf l a) acc hseg hmem habs hacc]
    have hnd' : ((acc ++ [(f.fileId, f.md)]).map (·.1) ++ rest.flatMap (segOf l)).Nodup := by
      rw [List.map_append, List.append_assoc]
      exact hnd.sublist (List.Sublist.append (List.Sublist.refl _)
        (List.Sublist.append (List.singleton_sublist.mpr hmem) (List.Sublist.refl _)))
    simp only [honest_loadParts h _ hnd']
    simp [List.append_assoc]

theorem honest_loadStepLinks {recur : Metadata → List (Str × JVal) → Str → Str → VerifyOut} {w : World} {l : Layout} {dir : Str} {step : Step} {r : StepRecord}
    (h : HonestStep recur w l dir step r) :
    loadStepLinks w dir r.name (candidateIds l step) [] = .ok r.loaded := by
  have := honest_loadParts h.parts_ok [] (by simpa [candidateIds_eq] using h.cands_nodup)
  simpa [candidateIds_eq, StepRecord.loaded] using this

theorem honest_load {recur : Metadata → List (Str × JVal) → Str → Str → VerifyOut} {w : World} {l : Layout} {dir : Str} : ∀ (steps : List Step) (rs : List StepRecord)
    (acc : Dict Str (Dict Str Metadata)), HonestSteps recur w l dir steps rs →
    (acc.map (·.1) ++ rs.map (·.name)).Nodup →
    loadLinksSteps w l dir steps acc = .ok (acc ++ loadedOf rs)
  | [], [], acc, _, _ => by simp [loadLinksSteps, loadedOf]
  | step :: rest, r :: rs, acc, .cons h hr, hnd => by
    have hlen : ¬ ((r.loaded.length : Int) < step.threshold) := by
      have := h.enough
      simp only [StepRecord.loaded, List.length_map]
      omega
    simp only [loadLinksSteps, h.name_eq, nameOf, honest_loadStepLinks h, if_neg hlen]
    have hnot : r.name ∉ acc.map (·.1) := by
      intro hm
      simp only [List.map_cons] at hnd
      have := (List.nodup_append.mp hnd).2.2 _ hm r.name List.mem_cons_self
      exact this rfl
    rw [Dict.insert_of_not_mem acc r.name _ hnot]
    have hnd' : ((acc ++ [(r.name, r.loaded)]).map (·.1) ++ rs.map (·.name)).Nodup := by
      simpa [List.map_append, List.append_assoc] using hnd
    rw [honest_load rest rs _ hr hnd']
    simp [loadedOf, List.append_assoc]

/-! ## Authorisation and signatures -/

theorem authorise_skip (keys : List (Str × JVal)) (subMap : Dict Str JVal) (fid a : Str) (rest : List Str)
    (h1 : fid ≠ a) (h2 : fid ∉ subkeyIds (Dict.get? keys a)) :
    authorise keys subMap fid (a :: rest) = authorise keys subMap fid rest := by
  cases hk : Dict.get? keys a with
  | none => simp only [authorise, hk, h1, if_false]
  | some k =>
    have hc : (subkeyIds (some k)).contains fid = false := by
      rw [hk] at h2
      cases hb : (subkeyIds (some k)).contains fid with
      | false => rfl
      | true => exact absurd (List.contains_iff_mem.mp hb) h2
    simp only [authorise, hk, h1, if_false, hc, Bool.false_eq_true]

theorem authorise_head {recur : Metadata → List (Str × JVal) → Str → Str → VerifyOut} {w : World} {l : Layout} {dir name : Str} {f : FuncRecord}
    (h : HonestFunc recur w l dir name f) (subMap : Dict Str JVal) (rest : List Str) :
    authorise l.keys subMap f.fileId (f.kid :: rest) = .ok (some (f.keyJ, f.kid)) := by
  by_cases hk : f.fileId = f.kid
  · simp only [authorise, h.key_in_store, hk, if_true, h.keyid_ok, Except.map]
  · have hsub : f.fileId ∈ subkeyIds (some f.keyJ) := by
      have := h.file_cand
      simp only [segOf, h.key_in_store, List.mem_cons] at this
      exact this.resolve_left hk
    have hcont : (subkeyIds (some f.keyJ)).contains f.fileId = true := List.contains_iff_mem.mpr hsub
    simp only [authorise, h.key_in_store, hk, if_false, hcont, if_true, h.keyid_ok, Except.map]

theorem honest_authorise {recur : Metadata → List (Str × JVal) → Str → Str → VerifyOut} {w : World} {l : Layout} {dir name : Str} (subMap : Dict Str JVal) :
    ∀ {pubkeys : List Str} {fs : List FuncRecord}, HonestParts recur w l dir name pubkeys fs →
    (pubkeys.flatMap (segOf l)).Nodup →
    ∀ f ∈ fs, authorise l.keys subMap f.fileId pubkeys = .ok (some (f.keyJ, f.kid))
  | _, _, .nil, _, _, hf => by cases hf
  | _, _, .skip (a := a) (rest := rest) _ h, hnd, f, hf => by
    rw [List.flatMap_cons] at hnd
    have hin : f.fileId ∈ rest.flatMap (segOf l) :=
      (parts_fileIds_sublist h).subset (List.mem_map_of_mem (f := (·.fileId)) hf)
    have hnot : f.fileId ∉ segOf l a := fun hm => (List.nodup_append.mp hnd).2.2 _ hm _ hin rfl
    have h1 : f.fileId ≠ a := fun e => hnot (e ▸ List.mem_cons_self)
    have h2 : f.fileId ∉ subkeyIds (Dict.get? l.keys a) := fun hm => hnot (List.mem_cons_of_mem _ hm)
    rw [authorise_skip l.keys subMap f.fileId a rest h1 h2]
    exact honest_authorise subMap h (List.nodup_append.mp hnd).2.1 f hf
  | _, _, .take (a := a) (rest := rest) (f := g) hk hg _ h, hnd, f, hf => by
    rw [List.flatMap_cons] at hnd
    rcases List.mem_cons.mp hf with rfl | hr
    · rw [← hk]; exact authorise_head hg subMap rest
    · have hin : f.fileId ∈ rest.flatMap (segOf l) :=
        (parts_fileIds_sublist h).subset (List.mem_map_of_mem (f := (·.fileId)) hr)
      have hnot : f.fileId ∉ segOf l a := fun hm => (List.nodup_append.mp hnd).2.2 _ hm _ hin rfl
      have h1 : f.fileId ≠ a := fun e => hnot (e ▸ List.mem_cons_self)
      have h2 : f.fileId ∉ subkeyIds (Dict.get? l.keys a) := fun hm => hnot (List.mem_cons_of_mem _ hm)
      rw [authorise_skip l.keys subMap f.fileId a rest h1 h2]
      exact honest_authorise subMap h (List.nodup_append.mp hnd).2.1 f hr

theorem honest_verifyParts {recur : Metadata → List (Str × JVal) → Str → Str → VerifyOut} {w : World} {l : Layout} {dir name : Str} (subMap : Dict Str JVal) (step : Step) :
    ∀ (fs : List FuncRecord) (kept : Dict Str Metadata) (used : List Str),
    (∀ f ∈ fs, HonestFunc recur w l dir name f ∧ authorise l.keys subMap f.fileId step.pubkeys = .ok (some (f.keyJ, f.kid))) →
    (kept.map (·.1) ++ fs.map (·.fileId)).Nodup →
    verifyStepLinks w l subMap step name (fs.map (fun f => (f.fileId, f.md))) kept used =
      .ok (kept ++ fs.map (fun f => (f.fileId, f.md)), used ++ fs.map (·.kid))
  | [], kept, used, _, _ => by simp [verifyStepLinks]
  | f :: fs, kept, used, hall, hnd => by
    obtain ⟨hf, hauth⟩ := hall f List.mem_cons_self
    have hnot : f.fileId ∉ kept.map (·.1) := by
      intro hm
      simp only [List.map_cons] at hnd
      exact (List.nodup_append.mp hnd).2.2 _ hm _ List.mem_cons_self rfl
    obtain ⟨pl, hpl, hnb⟩ := hf.payload_bound
    simp only [List.map_cons, verifyStepLinks, hauth, hf.sig_ok, hpl, hnb,
      Bool.not_true, Bool.false_eq_true, if_false, Dict.insert_of_not_mem kept f.fileId f.md hnot]
    have hnd' : ((kept ++ [(f.fileId, f.md)]).map (·.1) ++ fs.map (·.fileId)).Nodup := by
      simpa [List.map_append, List.append_assoc] using hnd
    rw [honest_verifyParts subMap step fs _ _ (fun g hg => hall g (List.mem_cons_of_mem _ hg)) hnd']
    simp [List.append_assoc]

theorem dedup_of_nodup {α : Type} [DecidableEq α] : ∀ (l : List α), l.Nodup → dedup l = l
  | [], _ => rfl
  | a :: r, h => by
    simp only [List.nodup_cons] at h
    have hc : r.contains a = false := by
      cases hb : r.contains a with
      | false => rfl
      | true => exact absurd (List.contains_iff_mem.mp hb) h.1
    simp only [dedup, hc, Bool.false_eq_true, if_false, dedup_of_nodup r h.2]

theorem honest_verifyStepLinks {recur : Metadata → List (Str × JVal) → Str → Str → VerifyOut} {w : World} {l : Layout} {dir : Str} {step : Step} {r : StepRecord}
    (h : HonestStep recur w l dir step r) (subMap : Dict Str JVal) :
    verifyStepLinks w l subMap step r.name r.loaded [] [] = .ok (r.loaded, r.parts.map (·.kid)) := by
  have hnd : (step.pubkeys.flatMap (segOf l)).Nodup := by simpa [candidateIds_eq] using h.cands_nodup
  have hall : ∀ f ∈ r.parts, HonestFunc recur w l dir r.name f ∧
      authorise l.keys subMap f.fileId step.pubkeys = .ok (some (f.keyJ, f.kid)) :=
    fun f hf => ⟨parts_honest h.parts_ok f hf, honest_authorise subMap h.parts_ok hnd f hf⟩
  have hfn : (r.parts.map (·.fileId)).Nodup := hnd.sublist (parts_fileIds_sublist h.parts_ok)
  have := honest_verifyParts (name := r.name) subMap step r.parts [] [] hall (by simpa using hfn)
  simpa [StepRecord.loaded] using this

theorem honest_sig {recur : Metadata → List (Str × JVal) → Str → Str → VerifyOut} {w : World} {l : Layout} {dir : Str} (subMap : Dict Str JVal) (all : List StepRecord)
    (hall : (all.map (·.name)).Nodup) : ∀ (steps : List Step) (rs : List StepRecord)
    (acc : Dict Str (Dict Str Metadata)), HonestSteps recur w l dir steps rs → (∀ r ∈ rs, r ∈ all) →
    (acc.map (·.1) ++ rs.map (·.name)).Nodup →
    verifySigSteps w l subMap (loadedOf all) steps acc = .ok (acc ++ loadedOf rs)
  | [], [], acc, _, _, _ => by simp [verifySigSteps, loadedOf]
  | step :: rest, r :: rs, acc, .cons h hr, hsub, hnd => by
    have hget : Dict.get? (loadedOf all) r.name = some r.loaded :=
      Dict.get?_map_of_mem (fun (x : StepRecord) => x.name) (fun (x : StepRecord) => x.loaded) all r (hsub r List.mem_cons_self) hall
    have hkn : (r.parts.map (·.kid)).Nodup := by
      have hc : (step.pubkeys.flatMap (segOf l)).Nodup := by simpa [candidateIds_eq] using h.cands_nodup
      exact hc.sublist (parts_kids_sublist h.parts_ok)
    have hlen : ¬ (((dedup (r.parts.map (·.kid))).length : Int) < step.threshold) := by
      rw [dedup_of_nodup _ hkn, List.length_map]
      have := h.enough
      omega
    simp only [verifySigSteps, h.name_eq, nameOf, hget, Option.getD_some, honest_verifyStepLinks h subMap, if_neg hlen]
    have hnot : r.name ∉ acc.map (·.1) := by
      intro hm
      simp only [List.map_cons] at hnd
      exact (List.nodup_append.mp hnd).2.2 _ hm r.name List.mem_cons_self rfl
    rw [Dict.insert_of_not_mem acc r.name _ hnot]
    have hnd' : ((acc ++ [(r.name, r.loaded)]).map (·.1) ++ rs.map (·.name)).Nodup := by
      simpa [List.map_append, List.append_assoc] using hnd
    rw [honest_sig subMap all hall rest rs _ hr (fun x hx => hsub x (List.mem_cons_of_mem _ hx)) hnd']
    simp [loadedOf, List.append_assoc]

/-! ## Sublayout stage, threshold constraints, reduction -/

theorem honest_sublayoutsStep {recur : Metadata → List (Str × JVal) → Str → Str → VerifyOut}
    {w : World} {l : Layout} {dir name : Str} :
    ∀ (fs : List FuncRecord) (acc : Dict Str Link), (∀ f ∈ fs, HonestFunc recur w l dir name f) →
    (acc.map (·.1) ++ fs.map (·.fileId)).Nodup →
    verifySublayoutsStep recur l dir name (fs.map (fun f => (f.fileId, f.md))) acc =
      (.ok (acc ++ fs.map (fun f => (f.fileId, f.lk))), fs.flatMap (·.tr))
  | [], acc, _, _ => by simp [verifySublayoutsStep]
  | f :: fs, acc, hall, hnd => by
    have hf := hall f List.mem_cons_self
    have hnot : f.fileId ∉ acc.map (·.1) := by
      intro hm
      simp only [List.map_cons] at hnd
      exact (List.nodup_append.mp hnd).2.2 _ hm _ List.mem_cons_self rfl
    have hnd' : ((acc ++ [(f.fileId, f.lk)]).map (·.1) ++ fs.map (·.fileId)).Nodup := by
      simpa [List.map_append, List.append_assoc] using hnd
    have ih := honest_sublayoutsStep fs (acc ++ [(f.fileId, f.lk)]) (fun g hg => hall g (List.mem_cons_of_mem _ hg)) hnd'
    rcases hf.evidence with ⟨hp, _, htr⟩ | ⟨sl, hp, hrec⟩
    · simp only [List.map_cons, verifySublayoutsStep, hp, Dict.insert_of_not_mem acc f.fileId f.lk hnot, ih,
        List.flatMap_cons, htr, List.nil_append]
      simp [List.append_assoc]
    · simp only [subKeyOf] at hrec
      simp only [List.map_cons, verifySublayoutsStep, hp, hrec, Dict.insert_of_not_mem acc f.fileId f.lk hnot, ih,
        List.flatMap_cons]
      simp [List.append_assoc]

theorem honest_sublayouts {recur : Metadata → List (Str × JVal) → Str → Str → VerifyOut}
    {w : World} {l : Layout} {dir : Str} :
    ∀ (steps : List Step) (rs : List StepRecord) (acc : Dict Str (Dict Str Link)),
    HonestSteps recur w l dir steps rs → (acc.map (·.1) ++ rs.map (·.name)).Nodup →
    verifySublayouts recur l dir (loadedOf rs) acc = (.ok (acc ++ chainOf rs), tracesOf rs)
  | [], [], acc, _, _ => by simp [verifySublayouts, loadedOf, chainOf, tracesOf]
  | step :: rest, r :: rs, acc, .cons h hr, hnd => by
    have hnot : r.name ∉ acc.map (·.1) := by
      intro hm
      simp only [List.map_cons] at hnd
      exact (List.nodup_append.mp hnd).2.2 _ hm r.name List.mem_cons_self rfl
    have hnd' : ((acc ++ [(r.name, r.chain)]).map (·.1) ++ rs.map (·.name)).Nodup := by
      simpa [List.map_append, List.append_assoc] using hnd
    have ih := honest_sublayouts rest rs (acc ++ [(r.name, r.chain)]) hr hnd'
    have hfn : (r.parts.map (·.fileId)).Nodup := by
      have hc : (step.pubkeys.flatMap (segOf l)).Nodup := by simpa [candidateIds_eq] using h.cands_nodup
      exact hc.sublist (parts_fileIds_sublist h.parts_ok)
    have hstep := honest_sublayoutsStep (recur := recur) (w := w) (l := l) (dir := dir) (name := r.name) r.parts []
      (parts_honest h.parts_ok) (by simpa using hfn)
    simp only [List.nil_append] at hstep
    simp only [loadedOf, List.map_cons, verifySublayouts, StepRecord.loaded, hstep]
    rw [Dict.insert_of_not_mem acc r.name _ hnot]
    simp only [loadedOf, StepRecord.chain, StepRecord.loaded] at ih
    simp only [ih]
    simp [chainOf, StepRecord.chain, tracesOf, StepRecord.trace, List.append_assoc]

theorem honest_threshold {recur : Metadata → List (Str × JVal) → Str → Str → VerifyOut} {w : World} {l : Layout} {dir : Str} (all : List StepRecord)
    (hall : (all.map (·.name)).Nodup) :
    ∀ (steps : List Step) (rs : List StepRecord), HonestSteps recur w l dir steps rs → (∀ r ∈ rs, r ∈ all) →
    allE (thresholdStep (chainOf all)) steps = .ok ()
  | [], [], _, _ => rfl
  | step :: rest, r :: rs, .cons h hr, hsub => by
    have hrest := honest_threshold all hall rest rs hr (fun x hx => hsub x (List.mem_cons_of_mem _ hx))
    by_cases ht : step.threshold ≤ 1
    · simp only [allE, thresholdStep, ht, if_true]
      exact hrest
    · have hget : Dict.get? (chainOf all) r.name = some r.chain :=
        Dict.get?_map_of_mem (fun (x : StepRecord) => x.name) (fun (x : StepRecord) => x.chain) all r (hsub r List.mem_cons_self) hall
      have hagree : allAgree r.chain = true := h.agree.resolve_left ht
      have hlen : ¬ ((r.chain.length : Int) < step.threshold) := by
        have := h.enough
        simp only [StepRecord.chain, List.length_map]
        omega
      simp only [allE, thresholdStep, ht, if_false, h.name_eq, nameOf, hget, if_neg hlen, hagree, if_true]
      exact hrest

theorem honest_reduce {recur : Metadata → List (Str × JVal) → Str → Str → VerifyOut} {w : World} {l : Layout} {dir : Str} :
    ∀ (steps : List Step) (rs : List StepRecord), HonestSteps recur w l dir steps rs →
    reduceChainLinks (chainOf rs) = .ok (linksOf rs)
  | [], [], _ => rfl
  | step :: rest, r :: rs, .cons h hr => by
    have ih := honest_reduce rest rs hr
    obtain ⟨f, fs, hp⟩ : ∃ f fs, r.parts = f :: fs := by
      cases hparts : r.parts with
      | nil => exact absurd hparts h.nonempty
      | cons f fs => exact ⟨f, fs, rfl⟩
    simp only [reduceChainLinks, chainOf, linksOf, firstLinks, List.map_cons, mapE, StepRecord.chain, hp,
      List.filterMap_cons] at ih ⊢
    rw [ih]

theorem honest_stepItems {recur : Metadata → List (Str × JVal) → Str → Str → VerifyOut} {w : World} {l : Layout} {dir : Str} :
    ∀ (steps : List Step) (rs : List StepRecord), HonestSteps recur w l dir steps rs →
    ∃ items, mapE (fun (s : Step) => (nameOf s.name).map s.ruleItem) steps = .ok items
  | [], [], _ => ⟨[], rfl⟩
  | step :: rest, r :: rs, .cons h hr => by
    obtain ⟨items, hi⟩ := honest_stepItems rest rs hr
    refine ⟨step.ruleItem r.name :: items, ?_⟩
    rw [mapE, hi]
    simp [h.name_eq, nameOf, Except.map]

/-! ## The chain verifies -/

/-- **An honest supply chain verifies.** The layout passes the gate (signed by
every verifier key, not expired); every step was performed honestly (one
authorised functionary, link in place, validly signed, naming the step), step
names are distinct; the step rules pass on the recorded links; the inspections
run and their rules pass. Then `in_toto_verify` returns the summary link — it
does not fail — whatever the number of steps and the depth budget. -/
theorem honest_chain_verifies (gm : Str → Str → Bool) (w : World) (fuel : Nat) (md : Metadata)
    (keys : List (Str × JVal)) (dir : Str) (params : Option (List (Str × Option Str))) (stepName : Str)
    (layout : Layout) (rs : List StepRecord) (inspLinks : Dict Str Link) (tr : List (List Str))
    (hgate : gate w md keys params = .ok layout)
    (hsteps : HonestSteps (fun md' keys' dir' name' => verify gm w fuel md' keys' dir' none name') w layout dir layout.steps rs)
    (hdistinct : (rs.map (·.name)).Nodup)
    (hrules : ∀ items, stepItems layout = .ok items → verifyAllItemRules gm (linksArts (linksOf rs)) items = .ok ())
    (hinsp : runAllInspections w layout.inspect [] = (.ok inspLinks, tr))
    (hinsprules : checkInspections gm layout (linksOf rs) inspLinks = .ok ()) :
    verify gm w (fuel + 1) md keys dir params stepName =
      { result := getSummaryLink layout (linksOf rs) stepName, trace := tracesOf rs ++ tr } := by
  have hload : loadLinksForLayout w layout dir = .ok (loadedOf rs) := by
    have := honest_load layout.steps rs [] hsteps (by simpa using hdistinct)
    simpa [loadLinksForLayout] using this
  have hsig : verifyLinkSignatureThresholds w layout (loadedOf rs) = .ok (loadedOf rs) := by
    have := honest_sig (mainKeysForSubkeys layout.keys) rs hdistinct layout.steps rs [] hsteps (fun _ h => h)
      (by simpa using hdistinct)
    simpa [verifyLinkSignatureThresholds] using this
  have hsub := honest_sublayouts layout.steps rs [] hsteps (by simpa using hdistinct)
  obtain ⟨items, hitems⟩ := honest_stepItems layout.steps rs hsteps
  have hchain : checkChain gm layout (chainOf rs) = .ok (linksOf rs) := by
    simp only [checkChain, verifyThresholdConstraints,
      honest_threshold rs hdistinct layout.steps rs hsteps (fun _ h => h),
      honest_reduce layout.steps rs hsteps, stepItems, hitems, hrules items (by simp [stepItems, hitems])]
  simp only [List.nil_append] at hsub
  simp only [verify, hgate, hload, hsig, hsub, hchain, hinsp, hinsprules]

/-- The gate passes when the layout is signed by every verifier key, carries a
layout that has not expired and names its steps and inspections (no parameters). -/
theorem gate_complete (w : World) (md : Metadata) (keys : List (Str × JVal)) (l : Layout)
    (hsig : verifyMetadataSignatures w md keys = .ok ()) (hpay : md.getPayload = .ok (.layout l))
    (hexp : verifyLayoutExpiration w l = .ok ()) (hnames : namesOk l = .ok ()) :
    gate w md keys none = .ok l := by
  simp [gate, hsig, hpay, hexp, substIfAny, hnames]


/-! ## A decision procedure for the hypotheses (so that they can be evaluated on real files) -/

theorem honestFunc_none {sub : Metadata → List (Str × JVal) → Str → Str → Option VerifyOut}
    {w : World} {l : Layout} {dir name a : Str}
    (h : honestFunc sub w l dir name a = some none) :
    ∀ cid ∈ segOf l a, loadFile w (pathJoin dir (linkFileName name cid)) = none := by
  unfold honestFunc at h
  split at h
  · rename_i hfilt
    intro cid hcid
    have := (List.filter_eq_nil_iff.mp hfilt) cid hcid
    simp only [present, Bool.not_eq_true, Option.isSome_eq_false_iff, Option.isNone_iff_eq_none] at this
    exact this
  · split at h
    · split at h
      · split at h
        · split at h
          · split at h
            · split at h
              · split at h
                · cases h
                · cases h
              · split at h
                · split at h
                  · cases h
                  · cases h
                · cases h
              · cases h
            · cases h
          · cases h
        · cases h
      · cases h
    · cases h

theorem honestFunc_some {sub : Metadata → List (Str × JVal) → Str → Str → Option VerifyOut}
    {recur : Metadata → List (Str × JVal) → Str → Str → VerifyOut}
    (hsub : ∀ md' keys' dir' name' out, sub md' keys' dir' name' = some out → recur md' keys' dir' name' = out)
    {w : World} {l : Layout} {dir name a : Str} {f : FuncRecord}
    (h : honestFunc sub w l dir name a = some (some f)) :
    f.kid = a ∧ HonestFunc recur w l dir name f ∧
      ∀ cid ∈ segOf l a, cid ≠ f.fileId → loadFile w (pathJoin dir (linkFileName name cid)) = none := by
  unfold honestFunc at h
  split at h
  · cases h
  · rename_i fid more hfilt
    have hm : fid ∈ List.filter (present w dir name) (segOf l a) := by
      rw [hfilt]; exact List.mem_cons_self
    split at h
    · rename_i hall
      have habs : ∀ cid ∈ segOf l a, cid ≠ fid → loadFile w (pathJoin dir (linkFileName name cid)) = none := by
        intro cid hcid hne
        cases hl : loadFile w (pathJoin dir (linkFileName name cid)) with
        | none => rfl
        | some v =>
          have hm' : cid ∈ List.filter (present w dir name) (segOf l a) :=
            List.mem_filter.mpr ⟨hcid, by simp [present, hl]⟩
          rw [hfilt] at hm'
          rcases List.mem_cons.mp hm' with e | hmore
          · exact absurd e hne
          · have := List.all_eq_true.mp hall cid hmore
            exact absurd (by simpa using this) hne
      split at h
      · rename_i keyJ hkey
        split at h
        · rename_i hk
          split at h
          · rename_i md hfile
            split at h
            · rename_i hsig
              split at h
              · rename_i lk hpay
                split at h
                · rename_i hln
                  simp only [Option.some.injEq] at h
                  subst h
                  exact ⟨rfl, ⟨hkey, (List.mem_filter.mp hm).1, hk, hfile, hsig, Or.inl ⟨hpay, hln, rfl⟩⟩, habs⟩
                · cases h
              · rename_i sl hpay
                split at h
                · rename_i out hout
                  split at h
                  · rename_i summary hres
                    simp only [Option.some.injEq] at h
                    subst h
                    refine ⟨rfl, ⟨hkey, (List.mem_filter.mp hm).1, hk, hfile, hsig, Or.inr ⟨sl, hpay, ?_⟩⟩, habs⟩
                    have := hsub _ _ _ _ _ hout
                    rw [this]
                    cases out with
                    | mk r t =>
                      simp only at hres
                      subst hres
                      rfl
                  · cases h
                · cases h
              · cases h
            · cases h
          · cases h
        · cases h
      · cases h
    · cases h

theorem honestFuncs_sound {sub : Metadata → List (Str × JVal) → Str → Str → Option VerifyOut}
    {recur : Metadata → List (Str × JVal) → Str → Str → VerifyOut}
    (hsub : ∀ md' keys' dir' name' out, sub md' keys' dir' name' = some out → recur md' keys' dir' name' = out)
    {w : World} {l : Layout} {dir name : Str} : ∀ (pubkeys : List Str) (fs : List FuncRecord),
    honestFuncs sub w l dir name pubkeys = some fs → HonestParts recur w l dir name pubkeys fs
  | [], fs, h => by
    simp only [honestFuncs, Option.some.injEq] at h
    rw [← h]; exact .nil
  | a :: rest, fs, h => by
    simp only [honestFuncs] at h
    cases hf : honestFunc sub w l dir name a with
    | none => simp [hf] at h
    | some o =>
      cases hr : honestFuncs sub w l dir name rest with
      | none => cases o <;> simp [hf, hr] at h
      | some fs' =>
        cases o with
        | none =>
          simp only [hf, hr, Option.some.injEq] at h
          rw [← h]
          exact .skip (honestFunc_none hf) (honestFuncs_sound hsub rest fs' hr)
        | some f =>
          simp only [hf, hr, Option.some.injEq] at h
          rw [← h]
          obtain ⟨hk, hfun, habs⟩ := honestFunc_some hsub hf
          exact .take hk hfun habs (honestFuncs_sound hsub rest fs' hr)

theorem honestRecord_sound {sub : Metadata → List (Str × JVal) → Str → Str → Option VerifyOut}
    {recur : Metadata → List (Str × JVal) → Str → Str → VerifyOut}
    (hsub : ∀ md' keys' dir' name' out, sub md' keys' dir' name' = some out → recur md' keys' dir' name' = out)
    {w : World} {l : Layout} {dir : Str} {step : Step} {r : StepRecord}
    (h : honestRecord sub w l dir step = some r) : HonestStep recur w l dir step r := by
  unfold honestRecord at h
  split at h
  · rename_i name hname
    split at h
    · rename_i hnd
      split at h
      · rename_i f fs hfs
        split at h
        · rename_i hcond
          simp only [Option.some.injEq] at h
          subst h
          exact ⟨hname, hnd, honestFuncs_sound hsub _ _ hfs, by simp, hcond.1, hcond.2⟩
        · cases h
      · cases h
    · cases h
  · cases h

theorem honestRecords_sound {sub : Metadata → List (Str × JVal) → Str → Str → Option VerifyOut}
    {recur : Metadata → List (Str × JVal) → Str → Str → VerifyOut}
    (hsub : ∀ md' keys' dir' name' out, sub md' keys' dir' name' = some out → recur md' keys' dir' name' = out)
    {w : World} {l : Layout} {dir : Str} : ∀ (steps : List Step) (rs : List StepRecord),
    honestRecords sub w l dir steps = some rs → HonestSteps recur w l dir steps rs
  | [], rs, h => by
    simp only [honestRecords, Option.some.injEq] at h
    rw [← h]; exact .nil
  | step :: rest, rs, h => by
    simp only [honestRecords] at h
    cases hr : honestRecord sub w l dir step with
    | none => simp [hr] at h
    | some r =>
      cases hrs : honestRecords sub w l dir rest with
      | none => simp [hr, hrs] at h
      | some rs' =>
        simp only [hr, hrs, Option.some.injEq] at h
        rw [← h]
        exact .cons (honestRecord_sound hsub hr) (honestRecords_sound hsub rest rs' hrs)

/-- One level: if the procedure for delegated layouts is sound for verification with budget
`fuel`, the procedure for this layout is sound for budget `fuel + 1`. -/
theorem honestCheckWith_sound (gm : Str → Str → Bool) (w : World) (fuel : Nat)
    (sub : Metadata → List (Str × JVal) → Str → Str → Option VerifyOut)
    (hsub : ∀ md' keys' dir' name' out, sub md' keys' dir' name' = some out →
      verify gm w fuel md' keys' dir' none name' = out)
    (md : Metadata) (keys : List (Str × JVal))
    (dir : Str) (params : Option (List (Str × Option Str))) (stepName : Str) (out : VerifyOut)
    (h : honestCheckWith sub gm w md keys dir params stepName = some out) :
    verify gm w (fuel + 1) md keys dir params stepName = out := by
  unfold honestCheckWith at h
  split at h
  · cases h
  · rename_i layout hgate
    split at h
    · cases h
    · rename_i rs hrs
      split at h
      · rename_i hnd
        split at h
        · cases h
        · rename_i items hitems
          split at h
          · rename_i hrules
            split at h
            · rename_i inspLinks tr hinsp
              split at h
              · rename_i hir
                cases h
                exact honest_chain_verifies gm w fuel md keys dir params stepName layout rs inspLinks tr hgate
                  (honestRecords_sound (recur := fun md' keys' dir' name' => verify gm w fuel md' keys' dir' none name')
                    hsub _ _ hrs) hnd
                  (fun items' hi => by rw [hitems] at hi; cases hi; exact hrules) hinsp hir
              · cases h
            · cases h
          · cases h
      · cases h

/-- **An honestly carried out supply chain with delegated steps verifies, at every depth.** If the
decision procedure says the hypotheses hold - at this level, and for every delegated layout one
level down, and so on -, verification returns what it predicts: the summary link, and the
inspection commands of all layouts of the tree in the order they run. -/
theorem honestCheck_sound (gm : Str → Str → Bool) (w : World) : ∀ (fuel : Nat) (md : Metadata) (keys : List (Str × JVal))
    (dir : Str) (params : Option (List (Str × Option Str))) (stepName : Str) (out : VerifyOut),
    honestCheck gm w fuel md keys dir params stepName = some out →
    verify gm w fuel md keys dir params stepName = out
  | 0, _, _, _, _, _, _, h => by simp [honestCheck] at h
  | fuel + 1, md, keys, dir, params, stepName, out, h => by
    simp only [honestCheck] at h
    exact honestCheckWith_sound gm w fuel _
      (fun md' keys' dir' name' out' h' => honestCheck_sound gm w fuel md' keys' dir' none name' out' h')
      md keys dir params stepName out h

end InToto
