import Proofs.Lemmas.Verify
import InToto.Honest
/-!
# An honestly carried out supply chain verifies (C11, second half; C04 completeness)

Every step of the layout is performed by its one authorised functionary (whose
key may list subkeys, as gpg bundles do), whose link file is where `in_toto_verify`
looks for it - under the id of the authorised key or under the id of one of its
subkeys, and under no other of those ids -, is signed with the key the
layout lists (by the key itself or by the subkey), and names the step; the rules of the layout pass on those links
(a "layout consistent with what was done": see `C04_rules_iff` for when a closed
rule list passes); the inspections run and their rules pass. Then verification
succeeds and returns the summary link of the chain — for any number of steps.
-/
namespace InToto

/-! ## Dictionaries with distinct keys -/

theorem Dict.insert_of_not_mem {α : Type} : ∀ (d : Dict Str α) (k : Str) (v : α), k ∉ d.map (·.1) →
    Dict.insert d k v = d ++ [(k, v)]
  | [], _, _, _ => rfl
  | (k', v') :: r, k, v, h => by
    simp only [List.map_cons, List.mem_cons, not_or] at h
    have hne : ¬ k' = k := fun e => h.1 e.symm
    simp only [Dict.insert, hne, if_false, List.cons_append, List.cons.injEq, true_and]
    exact Dict.insert_of_not_mem r k v h.2

theorem Dict.get?_append_single {α : Type} (d : Dict Str α) (k : Str) (v : α) (h : k ∉ d.map (·.1)) :
    Dict.get? (d ++ [(k, v)]) k = some v := by
  induction d with
  | nil => simp [Dict.get?]
  | cons p r ih =>
    simp only [List.map_cons, List.mem_cons, not_or] at h
    have hne : ¬ p.1 = k := fun e => h.1 e.symm
    have := ih h.2
    simp only [Dict.get?, List.cons_append, List.find?_cons, hne, decide_false] at this ⊢
    exact this

theorem Dict.get?_map_of_mem {α β : Type} (f : α → Str) (g : α → β) : ∀ (l : List α) (a : α),
    a ∈ l → (l.map f).Nodup → Dict.get? (l.map (fun x => (f x, g x))) (f a) = some (g a)
  | x :: r, a, hmem, hnd => by
    simp only [List.map_cons, List.nodup_cons] at hnd
    by_cases hx : f x = f a
    · rcases List.mem_cons.mp hmem with rfl | hr
      · simp [Dict.get?]
      · exact absurd (hx ▸ List.mem_map_of_mem hr) hnd.1
    · rcases List.mem_cons.mp hmem with rfl | hr
      · exact absurd rfl hx
      · have := Dict.get?_map_of_mem f g r a hr hnd.2
        simp only [Dict.get?, List.map_cons, List.find?_cons, hx, decide_false] at this ⊢
        exact this

/-! ## What an honest step is -/

/-- The step was carried out by its single authorised functionary. -/
structure HonestStep (w : World) (l : Layout) (dir : Str) (step : Step) (r : StepRecord) : Prop where
  name_eq : step.name = some r.name
  pubkeys_eq : step.pubkeys = [r.kid]
  threshold_eq : step.threshold = 1
  key_in_store : Dict.get? l.keys r.kid = some r.keyJ
  file_cand : r.fileId ∈ r.kid :: subkeyIds (some r.keyJ)
  others_absent : ∀ cid ∈ r.kid :: subkeyIds (some r.keyJ), cid ≠ r.fileId →
    loadFile w (pathJoin dir (linkFileName r.name cid)) = none
  keyid_ok : keyidOf r.keyJ = .ok r.kid
  file_loads : loadFile w (pathJoin dir (linkFileName r.name r.fileId)) = some (.ok r.md)
  sig_ok : r.md.verifySignature w.S w.nowSec r.keyJ = .ok
  payload_link : r.md.getPayload = .ok (.link r.lk)
  link_name : r.lk.name = some r.name

inductive HonestSteps (w : World) (l : Layout) (dir : Str) : List Step → List StepRecord → Prop where
  | nil : HonestSteps w l dir [] []
  | cons {step : Step} {rest : List Step} {r : StepRecord} {rs : List StepRecord} :
      HonestStep w l dir step r → HonestSteps w l dir rest rs → HonestSteps w l dir (step :: rest) (r :: rs)

/-! ## Stage by stage -/

/-- Of the ids tried, exactly one has a file: the loaded dictionary has that one entry
(however often the id occurs in the list). -/
theorem loadStepLinks_one (w : World) (dir name fid : Str) (md : Metadata)
    (hfile : loadFile w (pathJoin dir (linkFileName name fid)) = some (.ok md)) :
    ∀ (ids : List Str) (acc : Dict Str Metadata),
    (∀ cid ∈ ids, cid ≠ fid → loadFile w (pathJoin dir (linkFileName name cid)) = none) →
    (acc = [] ∨ acc = [(fid, md)]) →
    loadStepLinks w dir name ids acc = .ok (if fid ∈ ids then [(fid, md)] else acc)
  | [], acc, _, _ => by simp [loadStepLinks]
  | cid :: rest, acc, h, hacc => by
    by_cases hc : cid = fid
    · subst hc
      have hins : Dict.insert acc cid md = [(cid, md)] := by
        rcases hacc with rfl | rfl <;> simp [Dict.insert]
      simp only [loadStepLinks, hfile, hins]
      rw [loadStepLinks_one w dir name cid md hfile rest [(cid, md)]
        (fun x hx => h x (List.mem_cons_of_mem _ hx)) (Or.inr rfl)]
      simp
    · simp only [loadStepLinks, h cid List.mem_cons_self hc]
      rw [loadStepLinks_one w dir name fid md hfile rest acc
        (fun x hx => h x (List.mem_cons_of_mem _ hx)) hacc]
      have : (fid ∈ cid :: rest) ↔ fid ∈ rest := by
        simp only [List.mem_cons]
        exact ⟨fun o => o.resolve_left (fun e => hc e.symm), Or.inr⟩
      simp only [this]

theorem honest_loadStepLinks {w : World} {l : Layout} {dir : Str} {step : Step} {r : StepRecord}
    (h : HonestStep w l dir step r) :
    loadStepLinks w dir r.name (candidateIds l step) [] = .ok [(r.fileId, r.md)] := by
  have hc : candidateIds l step = r.kid :: subkeyIds (some r.keyJ) := by
    simp only [candidateIds, h.pubkeys_eq, List.flatMap_cons, List.flatMap_nil, List.append_nil, h.key_in_store]
  rw [hc, loadStepLinks_one w dir r.name r.fileId r.md h.file_loads _ [] h.others_absent (Or.inl rfl), if_pos h.file_cand]

theorem honest_load {w : World} {l : Layout} {dir : Str} : ∀ (steps : List Step) (rs : List StepRecord)
    (acc : Dict Str (Dict Str Metadata)), HonestSteps w l dir steps rs →
    (acc.map (·.1) ++ rs.map (·.name)).Nodup →
    loadLinksSteps w l dir steps acc = .ok (acc ++ loadedOf rs)
  | [], [], acc, _, _ => by simp [loadLinksSteps, loadedOf]
  | step :: rest, r :: rs, acc, .cons h hr, hnd => by
    simp only [loadLinksSteps, h.name_eq, nameOf, honest_loadStepLinks h, h.threshold_eq]
    rw [if_neg (by simp)]
    have hnot : r.name ∉ acc.map (·.1) := by
      intro hm
      simp only [List.map_cons] at hnd
      have := (List.nodup_append.mp hnd).2.2 _ hm r.name List.mem_cons_self
      exact this rfl
    rw [Dict.insert_of_not_mem acc r.name _ hnot]
    have hnd' : ((acc ++ [(r.name, [(r.fileId, r.md)])]).map (·.1) ++ rs.map (·.name)).Nodup := by
      simpa [List.map_append, List.append_assoc] using hnd
    rw [honest_load rest rs _ hr hnd']
    simp [loadedOf, List.append_assoc]

theorem honest_authorise {w : World} {l : Layout} {dir : Str} {step : Step} {r : StepRecord}
    (h : HonestStep w l dir step r) (subMap : Dict Str JVal) :
    authorise l.keys subMap r.fileId step.pubkeys = .ok (some (r.keyJ, r.kid)) := by
  by_cases hk : r.fileId = r.kid
  · simp only [h.pubkeys_eq, authorise, h.key_in_store, hk, if_true, h.keyid_ok, Except.map]
  · have hsub : r.fileId ∈ subkeyIds (some r.keyJ) := by
      have := h.file_cand
      simp only [List.mem_cons] at this
      exact this.resolve_left hk
    have hcont : (subkeyIds (some r.keyJ)).contains r.fileId = true := List.contains_iff_mem.mpr hsub
    simp only [h.pubkeys_eq, authorise, h.key_in_store, hk, if_false, hcont, if_true, h.keyid_ok, Except.map]

theorem honest_verifyStepLinks {w : World} {l : Layout} {dir : Str} {step : Step} {r : StepRecord}
    (h : HonestStep w l dir step r) (subMap : Dict Str JVal) :
    verifyStepLinks w l subMap step r.name [(r.fileId, r.md)] [] [] = .ok ([(r.fileId, r.md)], [r.kid]) := by
  simp only [verifyStepLinks, honest_authorise h subMap, h.sig_ok, h.payload_link, nameBound, h.link_name,
    decide_true, Bool.not_true, Bool.false_eq_true, if_false, Dict.insert, List.nil_append]

theorem honest_sig {w : World} {l : Layout} {dir : Str} (subMap : Dict Str JVal) (all : List StepRecord)
    (hall : (all.map (·.name)).Nodup) : ∀ (steps : List Step) (rs : List StepRecord)
    (acc : Dict Str (Dict Str Metadata)), HonestSteps w l dir steps rs → (∀ r ∈ rs, r ∈ all) →
    (acc.map (·.1) ++ rs.map (·.name)).Nodup →
    verifySigSteps w l subMap (loadedOf all) steps acc = .ok (acc ++ loadedOf rs)
  | [], [], acc, _, _, _ => by simp [verifySigSteps, loadedOf]
  | step :: rest, r :: rs, acc, .cons h hr, hsub, hnd => by
    have hget : Dict.get? (loadedOf all) r.name = some [(r.fileId, r.md)] :=
      Dict.get?_map_of_mem (fun (x : StepRecord) => x.name) (fun (x : StepRecord) => [(x.fileId, x.md)]) all r (hsub r List.mem_cons_self) hall
    simp only [verifySigSteps, h.name_eq, nameOf, hget, Option.getD_some, honest_verifyStepLinks h subMap,
      dedup, List.contains_nil, Bool.false_eq_true, if_false, h.threshold_eq]
    rw [if_neg (by simp)]
    have hnot : r.name ∉ acc.map (·.1) := by
      intro hm
      simp only [List.map_cons] at hnd
      exact (List.nodup_append.mp hnd).2.2 _ hm r.name List.mem_cons_self rfl
    rw [Dict.insert_of_not_mem acc r.name _ hnot]
    have hnd' : ((acc ++ [(r.name, [(r.fileId, r.md)])]).map (·.1) ++ rs.map (·.name)).Nodup := by
      simpa [List.map_append, List.append_assoc] using hnd
    rw [honest_sig subMap all hall rest rs _ hr (fun x hx => hsub x (List.mem_cons_of_mem _ hx)) hnd']
    simp [loadedOf, List.append_assoc]

theorem honest_sublayouts {w : World} {l : Layout} {dir : Str}
    (recur : Metadata → List (Str × JVal) → Str → Str → VerifyOut) (dir' : Str) :
    ∀ (steps : List Step) (rs : List StepRecord) (acc : Dict Str (Dict Str Link)),
    HonestSteps w l dir steps rs → (acc.map (·.1) ++ rs.map (·.name)).Nodup →
    verifySublayouts recur l dir' (loadedOf rs) acc = (.ok (acc ++ chainOf rs), [])
  | [], [], acc, _, _ => by simp [verifySublayouts, loadedOf, chainOf]
  | step :: rest, r :: rs, acc, .cons h hr, hnd => by
    have hnot : r.name ∉ acc.map (·.1) := by
      intro hm
      simp only [List.map_cons] at hnd
      exact (List.nodup_append.mp hnd).2.2 _ hm r.name List.mem_cons_self rfl
    have hnd' : ((acc ++ [(r.name, [(r.fileId, r.lk)])]).map (·.1) ++ rs.map (·.name)).Nodup := by
      simpa [List.map_append, List.append_assoc] using hnd
    have ih := honest_sublayouts recur dir' rest rs (acc ++ [(r.name, [(r.fileId, r.lk)])]) hr hnd'
    simp only [loadedOf, List.map_cons, verifySublayouts, verifySublayoutsStep, h.payload_link, Dict.insert]
    rw [Dict.insert_of_not_mem acc r.name _ hnot]
    simp only [loadedOf] at ih
    rw [ih]
    simp [chainOf, List.append_assoc]

theorem honest_threshold {w : World} {l : Layout} {dir : Str} (chain : Dict Str (Dict Str Link)) :
    ∀ (steps : List Step) (rs : List StepRecord), HonestSteps w l dir steps rs →
    allE (thresholdStep chain) steps = .ok ()
  | [], [], _ => rfl
  | step :: rest, r :: rs, .cons h hr => by
    simp only [allE, thresholdStep, h.threshold_eq, Int.le_refl, if_true]
    exact honest_threshold chain rest rs hr

theorem honest_reduce : ∀ (rs : List StepRecord), reduceChainLinks (chainOf rs) = .ok (linksOf rs)
  | [] => rfl
  | r :: rs => by
    have ih := honest_reduce rs
    simp only [reduceChainLinks, chainOf, linksOf, List.map_cons, mapE] at ih ⊢
    rw [ih]

theorem honest_stepItems {w : World} {l : Layout} {dir : Str} :
    ∀ (steps : List Step) (rs : List StepRecord), HonestSteps w l dir steps rs →
    ∃ items, mapE (fun (s : Step) => (nameOf s.name).map s.ruleItem) steps = .ok items
  | [], [], _ => ⟨[], rfl⟩
  | step :: rest, r :: rs, .cons h hr => by
    obtain ⟨items, hi⟩ := honest_stepItems rest rs hr
    refine ⟨step.ruleItem r.name :: items, ?_⟩
    rw [mapE, hi]
    simp [h.name_eq, nameOf, Except.map]

/-! ## The chain verifies -/

/-- **An honest supply chain verifies.** The layout passes the gate (signed by
every verifier key, not expired); every step was performed honestly (one
authorised functionary, link in place, validly signed, naming the step), step
names are distinct; the step rules pass on the recorded links; the inspections
run and their rules pass. Then `in_toto_verify` returns the summary link — it
does not fail — whatever the number of steps and the depth budget. -/
theorem honest_chain_verifies (gm : Str → Str → Bool) (w : World) (fuel : Nat) (md : Metadata)
    (keys : List (Str × JVal)) (dir : Str) (params : Option (List (Str × Option Str))) (stepName : Str)
    (layout : Layout) (rs : List StepRecord) (inspLinks : Dict Str Link) (tr : List (List Str))
    (hgate : gate w md keys params = .ok layout)
    (hsteps : HonestSteps w layout dir layout.steps rs)
    (hdistinct : (rs.map (·.name)).Nodup)
    (hrules : ∀ items, stepItems layout = .ok items → verifyAllItemRules gm (linksArts (linksOf rs)) items = .ok ())
    (hinsp : runAllInspections w layout.inspect [] = (.ok inspLinks, tr))
    (hinsprules : checkInspections gm layout (linksOf rs) inspLinks = .ok ()) :
    verify gm w (fuel + 1) md keys dir params stepName =
      { result := getSummaryLink layout (linksOf rs) stepName, trace := tr } := by
  have hload : loadLinksForLayout w layout dir = .ok (loadedOf rs) := by
    have := honest_load layout.steps rs [] hsteps (by simpa using hdistinct)
    simpa [loadLinksForLayout] using this
  have hsig : verifyLinkSignatureThresholds w layout (loadedOf rs) = .ok (loadedOf rs) := by
    have := honest_sig (mainKeysForSubkeys layout.keys) rs hdistinct layout.steps rs [] hsteps (fun _ h => h)
      (by simpa using hdistinct)
    simpa [verifyLinkSignatureThresholds] using this
  have hsub := honest_sublayouts (w := w) (l := layout) (dir := dir)
    (fun md' keys' dir' name' => verify gm w fuel md' keys' dir' none name') dir layout.steps rs [] hsteps
    (by simpa using hdistinct)
  obtain ⟨items, hitems⟩ := honest_stepItems layout.steps rs hsteps
  have hchain : checkChain gm layout (chainOf rs) = .ok (linksOf rs) := by
    simp only [checkChain, verifyThresholdConstraints, honest_threshold (chainOf rs) layout.steps rs hsteps,
      honest_reduce, stepItems, hitems, hrules items (by simp [stepItems, hitems])]
  simp only [List.nil_append] at hsub
  simp only [verify, hgate, hload, hsig, hsub, hchain, hinsp, hinsprules, List.nil_append]

/-- The gate passes when the layout is signed by every verifier key, carries a
layout that has not expired and names its steps and inspections (no parameters). -/
theorem gate_complete (w : World) (md : Metadata) (keys : List (Str × JVal)) (l : Layout)
    (hsig : verifyMetadataSignatures w md keys = .ok ()) (hpay : md.getPayload = .ok (.layout l))
    (hexp : verifyLayoutExpiration w l = .ok ()) (hnames : namesOk l = .ok ()) :
    gate w md keys none = .ok l := by
  simp [gate, hsig, hpay, hexp, substIfAny, hnames]


/-! ## A decision procedure for the hypotheses (so that they can be evaluated on real files) -/

theorem honestRecord_sound {w : World} {l : Layout} {dir : Str} {step : Step} {r : StepRecord}
    (h : honestRecord w l dir step = some r) : HonestStep w l dir step r := by
  unfold honestRecord at h
  split at h
  · rename_i name kid hname hpub
    split at h
    · rename_i hthr
      split at h
      · rename_i keyJ hkey
        split at h
        · rename_i hk
          split at h
          · rename_i fid more hfilt
            split at h
            · rename_i hall
              split at h
              · rename_i md hfile
                split at h
                · rename_i hsig
                  split at h
                  · rename_i lk hpay
                    split at h
                    · rename_i hln
                      cases h
                      refine ⟨hname, hpub, hthr, hkey, ?_, ?_, hk, hfile, hsig, hpay, hln⟩
                      · have hm : fid ∈ List.filter (fun cid => (loadFile w (pathJoin dir (linkFileName name cid))).isSome)
                            (kid :: subkeyIds (some keyJ)) := by rw [hfilt]; exact List.mem_cons_self
                        exact (List.mem_filter.mp hm).1
                      · intro cid hcid hne
                        cases hl : loadFile w (pathJoin dir (linkFileName name cid)) with
                        | none => rfl
                        | some v =>
                          have hm : cid ∈ List.filter (fun cid => (loadFile w (pathJoin dir (linkFileName name cid))).isSome)
                              (kid :: subkeyIds (some keyJ)) := List.mem_filter.mpr ⟨hcid, by simp [hl]⟩
                          rw [hfilt] at hm
                          rcases List.mem_cons.mp hm with e | hmore
                          · exact absurd e hne
                          · have := List.all_eq_true.mp hall cid hmore
                            exact absurd (by simpa using this) hne
                    · cases h
                  · cases h
                · cases h
              · cases h
            · cases h
          · cases h
        · cases h
      · cases h
    · cases h
  · cases h

theorem honestRecords_sound {w : World} {l : Layout} {dir : Str} : ∀ (steps : List Step) (rs : List StepRecord),
    honestRecords w l dir steps = some rs → HonestSteps w l dir steps rs
  | [], rs, h => by
    simp only [honestRecords, Option.some.injEq] at h
    rw [← h]; exact .nil
  | step :: rest, rs, h => by
    simp only [honestRecords] at h
    cases hr : honestRecord w l dir step with
    | none => simp [hr] at h
    | some r =>
      cases hrs : honestRecords w l dir rest with
      | none => simp [hr, hrs] at h
      | some rs' =>
        simp only [hr, hrs, Option.some.injEq] at h
        rw [← h]
        exact .cons (honestRecord_sound hr) (honestRecords_sound rest rs' hrs)

/-- If the decision procedure says the hypotheses hold, verification returns what
it predicts (corollary of `honest_chain_verifies`). -/
theorem honestCheck_sound (gm : Str → Str → Bool) (w : World) (fuel : Nat) (md : Metadata) (keys : List (Str × JVal))
    (dir : Str) (params : Option (List (Str × Option Str))) (stepName : Str) (out : VerifyOut)
    (h : honestCheck gm w md keys dir params stepName = some out) :
    verify gm w (fuel + 1) md keys dir params stepName = out := by
  unfold honestCheck at h
  split at h
  · cases h
  · rename_i layout hgate
    split at h
    · cases h
    · rename_i rs hrs
      split at h
      · rename_i hnd
        split at h
        · cases h
        · rename_i items hitems
          split at h
          · rename_i hrules
            split at h
            · rename_i inspLinks tr hinsp
              split at h
              · rename_i hir
                cases h
                exact honest_chain_verifies gm w fuel md keys dir params stepName layout rs inspLinks tr hgate
                  (honestRecords_sound _ _ hrs) hnd
                  (fun items' hi => by rw [hitems] at hi; cases hi; exact hrules) hinsp hir
              · cases h
            · cases h
          · cases h
      · cases h

end InToto
