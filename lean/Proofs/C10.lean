import InToto.Record
import Proofs.C02
/-!
# C10 — artifact recording is complete, exact and never silently drops a file
-/
namespace InToto

/-! ## Dictionary insertion -/

theorem Dict.contains_insert_self {α : Type} (d : Dict Str α) (k : Str) (v : α) :
    (Dict.insert d k v).contains k = true := by
  induction d with
  | nil => simp [Dict.insert, Dict.contains]
  | cons x r ih =>
    simp only [Dict.insert]
    split
    · simp [Dict.contains]
    · simp only [Dict.contains, List.any_cons] at ih ⊢
      simp [ih]

theorem Dict.contains_insert_of_contains {α : Type} (d : Dict Str α) (k k' : Str) (v : α)
    (h : d.contains k' = true) : (Dict.insert d k v).contains k' = true := by
  induction d with
  | nil => simp [Dict.contains] at h
  | cons x r ih =>
    simp only [Dict.insert]
    simp only [Dict.contains, List.any_cons, Bool.or_eq_true, decide_eq_true_eq] at h
    split
    · rename_i hx
      simp only [Dict.contains, List.any_cons, Bool.or_eq_true, decide_eq_true_eq]
      rcases h with h | h
      · exact .inl (hx ▸ h ▸ rfl)
      · exact .inr h
    · simp only [Dict.contains, List.any_cons, Bool.or_eq_true, decide_eq_true_eq] at ih ⊢
      rcases h with h | h
      · exact .inl h
      · exact .inr (ih h)

theorem Dict.get?_insert_self {α : Type} (d : Dict Str α) (k : Str) (v : α) :
    (Dict.insert d k v).get? k = some v := by
  induction d with
  | nil => simp [Dict.insert, Dict.get?]
  | cons x r ih =>
    simp only [Dict.insert]
    split
    · simp [Dict.get?]
    · rename_i hx
      simp only [Dict.get?, List.find?_cons, hx, decide_false] at ih ⊢
      exact ih

theorem Dict.get?_insert_of_ne {α : Type} (d : Dict Str α) (k k' : Str) (v : α) (hne : k' ≠ k) :
    (Dict.insert d k v).get? k' = d.get? k' := by
  induction d with
  | nil =>
    have : ¬ k = k' := fun h => hne h.symm
    simp [Dict.insert, Dict.get?, this]
  | cons x r ih =>
    simp only [Dict.insert]
    split
    · rename_i hx
      have h1 : ¬ k = k' := fun h => hne h.symm
      have h2 : ¬ x.1 = k' := fun h => hne (h.symm.trans hx)
      simp [Dict.get?, List.find?_cons, h1, h2]
    · by_cases hx' : x.1 = k'
      · simp [Dict.get?, List.find?_cons, hx']
      · simp only [Dict.get?, List.find?_cons, hx', decide_false] at ih ⊢
        exact ih

/-! ## The walk reaches exactly the files below the start directory -/

/-- Reachability, as documented: an entry that is not a directory is reached
under the normalised join of the directory path and its name (regular files,
links to files, dangling links); the walk descends into a sub-directory unless
its path is excluded, and into a link to a directory only if, in addition,
directory links are to be followed. -/
inductive Reach (o : RecOpts) : Str → List (Str × Node) → Str → Node → Prop where
  | leaf (base : Str) (es : List (Str × Node)) (name : Str) (n : Node) :
      (name, n) ∈ es → n.isDir = false → Reach o base es (normpath (pathJoin base name)) n
  | down (base : Str) (es : List (Str × Node)) (name : Str) (es' : List (Str × Node)) (p : Str) (n : Node) :
      (name, Node.dir es') ∈ es → o.excl (normpath (pathJoin base name)) = false →
      Reach o (pathJoin base name) es' p n → Reach o base es p n
  | follow (base : Str) (es : List (Str × Node)) (name : Str) (es' : List (Str × Node)) (p : Str) (n : Node) :
      (name, Node.symDir es') ∈ es → o.follow = true → o.excl (normpath (pathJoin base name)) = false →
      Reach o (pathJoin base name) es' p n → Reach o base es p n

theorem Reach.mono (o : RecOpts) {base : Str} {es : List (Str × Node)} {p : Str} {n : Node} (x : Str × Node)
    (h : Reach o base es p n) : Reach o base (x :: es) p n := by
  cases h with
  | leaf _ _ name n hm hd => exact .leaf _ _ name n (List.mem_cons_of_mem _ hm) hd
  | down _ _ name es' _ _ hm he hr => exact .down _ _ name es' _ _ (List.mem_cons_of_mem _ hm) he hr
  | follow _ _ name es' _ _ hm hf he hr => exact .follow _ _ name es' _ _ (List.mem_cons_of_mem _ hm) hf he hr

theorem walk_cons_dir (o : RecOpts) (base name : Str) (es' rest : List (Str × Node)) :
    walkEntries o base ((name, .dir es') :: rest) =
      (if o.excl (normpath (pathJoin base name)) then [] else walkEntries o (pathJoin base name) es') ++
        walkEntries o base rest := by
  simp [walkEntries]

theorem walk_cons_symDir (o : RecOpts) (base name : Str) (es' rest : List (Str × Node)) :
    walkEntries o base ((name, .symDir es') :: rest) =
      (if o.excl (normpath (pathJoin base name)) ∨ !o.follow then [] else walkEntries o (pathJoin base name) es') ++
        walkEntries o base rest := by
  simp [walkEntries]

theorem walk_cons_leaf (o : RecOpts) (base name : Str) (m : Node) (rest : List (Str × Node))
    (hd : m.isDir = false) :
    walkEntries o base ((name, m) :: rest) = (normpath (pathJoin base name), m) :: walkEntries o base rest := by
  cases m <;> simp_all [walkEntries, Node.isDir]

/-- **C10 (no file missed, none invented).** The walk yields exactly the
reachable non-directory entries. -/
theorem C10_walk_iff (o : RecOpts) : ∀ (base : Str) (es : List (Str × Node)) (p : Str) (n : Node),
    (p, n) ∈ walkEntries o base es ↔ Reach o base es p n := by
  intro base es
  induction base, es using walkEntries.induct with
  | case1 base =>
    intro p n
    simp only [walkEntries, List.not_mem_nil, false_iff]
    intro h
    cases h with
    | leaf _ _ _ _ hm _ => cases hm
    | down _ _ _ _ _ _ hm _ _ => cases hm
    | follow _ _ _ _ _ _ hm _ _ _ => cases hm
  | case2 base name m rest ihsub ihrest =>
    intro p n
    -- membership of an entry of `rest`
    have inRest : Reach o base rest p n → (p, n) ∈ walkEntries o base rest := (ihrest p n).mpr
    cases hm : m.isDir with
    | false =>
      rw [walk_cons_leaf o base name m rest hm, List.mem_cons]
      constructor
      · rintro (h | h)
        · cases h; exact .leaf _ _ name _ List.mem_cons_self hm
        · exact ((ihrest p n).mp h).mono o _
      · intro h
        cases h with
        | leaf _ _ name' n' hmem hd =>
          rcases List.mem_cons.mp hmem with heq | hmem
          · cases heq; exact .inl rfl
          · exact .inr (inRest (.leaf _ _ name' _ hmem hd))
        | down _ _ name' es' _ _ hmem he hr =>
          rcases List.mem_cons.mp hmem with heq | hmem
          · cases heq; simp [Node.isDir] at hm
          · exact .inr (inRest (.down _ _ name' es' _ _ hmem he hr))
        | follow _ _ name' es' _ _ hmem hf he hr =>
          rcases List.mem_cons.mp hmem with heq | hmem
          · cases heq; simp [Node.isDir] at hm
          · exact .inr (inRest (.follow _ _ name' es' _ _ hmem hf he hr))
    | true =>
      cases m with
      | file | symFile | dangling => simp [Node.isDir] at hm
      | dir es' =>
        simp only at ihsub
        rw [walk_cons_dir, List.mem_append]
        constructor
        · rintro (h | h)
          · split at h
            · cases h
            · rename_i he
              exact .down _ _ name es' _ _ List.mem_cons_self (by simpa using he) ((ihsub p n).mp h)
          · exact ((ihrest p n).mp h).mono o _
        · intro h
          cases h with
          | leaf _ _ name' n' hmem hd =>
            rcases List.mem_cons.mp hmem with heq | hmem
            · cases heq; simp [Node.isDir] at hd
            · exact .inr (inRest (.leaf _ _ name' _ hmem hd))
          | down _ _ name' es'' _ _ hmem he hr =>
            rcases List.mem_cons.mp hmem with heq | hmem
            · cases heq; exact .inl (by simp [he, (ihsub p n).mpr hr])
            · exact .inr (inRest (.down _ _ name' es'' _ _ hmem he hr))
          | follow _ _ name' es'' _ _ hmem hf he hr =>
            rcases List.mem_cons.mp hmem with heq | hmem
            · cases heq
            · exact .inr (inRest (.follow _ _ name' es'' _ _ hmem hf he hr))
      | symDir es' =>
        simp only at ihsub
        rw [walk_cons_symDir, List.mem_append]
        constructor
        · rintro (h | h)
          · split at h
            · cases h
            · rename_i he
              simp only [not_or, Bool.not_eq_true, Bool.not_eq_true'] at he
              exact .follow _ _ name es' _ _ List.mem_cons_self (by simpa using he.2) he.1 ((ihsub p n).mp h)
          · exact ((ihrest p n).mp h).mono o _
        · intro h
          cases h with
          | leaf _ _ name' n' hmem hd =>
            rcases List.mem_cons.mp hmem with heq | hmem
            · cases heq; simp [Node.isDir] at hd
            · exact .inr (inRest (.leaf _ _ name' _ hmem hd))
          | down _ _ name' es'' _ _ hmem he hr =>
            rcases List.mem_cons.mp hmem with heq | hmem
            · cases heq
            · exact .inr (inRest (.down _ _ name' es'' _ _ hmem he hr))
          | follow _ _ name' es'' _ _ hmem hf he hr =>
            rcases List.mem_cons.mp hmem with heq | hmem
            · cases heq; exact .inl (by simp [he, hf, (ihsub p n).mpr hr])
            · exact .inr (inRest (.follow _ _ name' es'' _ _ hmem hf he hr))

/-! ## Recording the candidates -/

/-- The key a path is recorded under. -/
def recName (o : RecOpts) (scheme path : Str) : Str := scheme ++ stripFirst o.lstrip (backslashToSlash path)

/-- A candidate that is recorded: not excluded and a file (regular or through a link). -/
def Recorded (o : RecOpts) (c : Str × Node) (d : Str) : Prop :=
  o.excl c.1 = false ∧ c.2.digest? o.normalize = some d

theorem recordFiles_inv (o : RecOpts) (scheme : Str) :
    ∀ (cands : List (Str × Node)) (acc res : Dict Str Str), recordFiles o scheme cands acc = .ok res →
      -- exact: nothing invented
      (∀ kv ∈ res, kv ∈ acc ∨ ∃ c ∈ cands, Recorded o c kv.2 ∧ kv.1 = recName o scheme c.1) ∧
      -- complete: nothing missed
      (∀ c ∈ cands, ∀ d, Recorded o c d → res.contains (recName o scheme c.1) = true) ∧
      (∀ k, acc.contains k = true → res.contains k = true) := by
  intro cands
  induction cands with
  | nil =>
    intro acc res h
    simp only [recordFiles] at h
    cases h
    refine ⟨fun kv h => .inl h, ?_, fun k h => h⟩
    intro c hc; cases hc
  | cons c rest ih =>
    intro acc res h
    obtain ⟨path, n⟩ := c
    simp only [recordFiles] at h
    have skip : recordFiles o scheme rest acc = .ok res → (∀ d, ¬ Recorded o (path, n) d) →
        (∀ kv ∈ res, kv ∈ acc ∨ ∃ c ∈ (path, n) :: rest, Recorded o c kv.2 ∧ kv.1 = recName o scheme c.1) ∧
        (∀ c ∈ (path, n) :: rest, ∀ d, Recorded o c d → res.contains (recName o scheme c.1) = true) ∧
        (∀ k, acc.contains k = true → res.contains k = true) := by
      intro h' hno
      obtain ⟨h1, h2, h3⟩ := ih _ _ h'
      refine ⟨?_, ?_, h3⟩
      · intro kv hkv
        rcases h1 kv hkv with h | ⟨c, hc, hr⟩
        · exact .inl h
        · exact .inr ⟨c, List.mem_cons_of_mem _ hc, hr⟩
      · intro c hc d hd
        rcases List.mem_cons.mp hc with rfl | hc
        · exact absurd hd (hno d)
        · exact h2 c hc d hd
    split at h
    · rename_i hex
      exact skip h (fun d hd => by simp [Recorded, hex] at hd)
    · rename_i hex
      split at h
      · rename_i hdig
        exact skip h (fun d hd => by simp [Recorded, hdig] at hd)
      · rename_i d hdig
        split at h
        · cases h
        · rename_i name hname
          have hn : name = recName o scheme path := by
            simp only [mangle] at hname
            split at hname
            · cases hname
            · cases hname; rfl
          subst hn
          obtain ⟨h1, h2, h3⟩ := ih _ _ h
          have hrec : Recorded o (path, n) d := ⟨by simpa using hex, hdig⟩
          refine ⟨?_, ?_, ?_⟩
          · intro kv hkv
            rcases h1 kv hkv with h | ⟨c, hc, hr⟩
            · rcases Dict.mem_insert _ _ _ _ h with h | h
              · subst h; exact .inr ⟨(path, n), List.mem_cons_self, hrec, rfl⟩
              · exact .inl h
            · exact .inr ⟨c, List.mem_cons_of_mem _ hc, hr⟩
          · intro c hc d' hd'
            rcases List.mem_cons.mp hc with rfl | hc
            · exact h3 _ (Dict.contains_insert_self _ _ _)
            · exact h2 c hc d' hd'
          · intro k hk
            exact h3 k (Dict.contains_insert_of_contains _ _ _ _ hk)

/-- **C10 (exact and complete).** On success, recording a list of candidates
(the start path itself if it is a file, or everything the walk reaches) adds
exactly one key per recorded candidate — the scheme prefix plus the path with
the first matching strip prefix removed — carrying the file's digest, and
nothing else. -/
theorem C10_record_spec (o : RecOpts) (scheme : Str) (cands : List (Str × Node)) (res : Dict Str Str)
    (h : recordFiles o scheme cands [] = .ok res) :
    (∀ kv ∈ res, ∃ c ∈ cands, Recorded o c kv.2 ∧ kv.1 = recName o scheme c.1) ∧
    (∀ c ∈ cands, ∀ d, Recorded o c d → res.contains (recName o scheme c.1) = true) := by
  obtain ⟨h1, h2, _⟩ := recordFiles_inv o scheme cands [] res h
  refine ⟨?_, h2⟩
  intro kv hkv
  rcases h1 kv hkv with h | h
  · cases h
  · exact h

/-- **C10 (never a silent drop).** With prefix stripping active, if two
candidates that would both be recorded map to the same key, the recording
fails (`PrefixError`) instead of keeping one of them — with or without a
`file:` scheme prefix. -/
theorem C10_collision_fails (o : RecOpts) (scheme : Str) (hl : o.lstrip ≠ [])
    (l1 l2 l3 : List (Str × Node)) (c1 c2 : Str × Node) (d1 d2 : Str)
    (h1 : Recorded o c1 d1) (h2 : Recorded o c2 d2)
    (hsame : recName o scheme c1.1 = recName o scheme c2.1) (acc : Dict Str Str) :
    ∀ res, recordFiles o scheme (l1 ++ c1 :: l2 ++ c2 :: l3) acc ≠ .ok res := by
  -- generalise over the accumulator: once c1's key is in it, c2 cannot be recorded
  have key : ∀ (l : List (Str × Node)) (acc : Dict Str Str), acc.contains (recName o scheme c2.1) = true →
      ∀ res, recordFiles o scheme (l ++ c2 :: l3) acc ≠ .ok res := by
    intro l
    induction l with
    | nil =>
      intro acc hacc res h
      obtain ⟨p2, n2⟩ := c2
      simp only [List.nil_append, recordFiles, h2.1, Bool.false_eq_true, if_false, h2.2] at h
      simp only [mangle, recName] at h hacc
      simp [hl, hacc] at h
    | cons x xs ih =>
      intro acc hacc res h
      obtain ⟨px, nx⟩ := x
      simp only [List.cons_append, recordFiles] at h
      split at h
      · exact ih acc hacc res h
      · split at h
        · exact ih acc hacc res h
        · split at h
          · cases h
          · exact ih _ (Dict.contains_insert_of_contains _ _ _ _ hacc) res h
  intro res
  induction l1 generalizing acc with
  | nil =>
    intro h
    obtain ⟨p1, n1⟩ := c1
    simp only [List.nil_append, List.cons_append, recordFiles, h1.1, Bool.false_eq_true, if_false, h1.2] at h
    split at h
    · cases h
    · rename_i name hname
      have hn : name = recName o scheme p1 := by
        simp only [mangle] at hname
        split at hname
        · cases hname
        · cases hname; rfl
      subst hn
      exact key l2 _ (hsame ▸ Dict.contains_insert_self _ _ _) res h
  | cons x xs ih =>
    intro h
    obtain ⟨px, nx⟩ := x
    simp only [List.cons_append, recordFiles] at h
    split at h
    · exact ih acc h
    · split at h
      · exact ih acc h
      · split at h
        · cases h
        · exact ih _ h

/-- The constructor's check: prefix lists in which one prefix is a prefix of
another are rejected outright. -/
theorem C10_overlapping_prefixes_rejected (o : RecOpts) (root : Node) (uris : List Str)
    (h : lstripOk o.lstrip = false) : fileResolver o root uris = .error .prefix := by
  simp [fileResolver, h]

end InToto
