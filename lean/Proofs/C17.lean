import InToto.Rulelib
/-!
# C17 — every rule parses to one meaning or is rejected

Property theorems about `InToto.unpackRule` / `InToto.packRule`
(model of `in_toto/rulelib.py`).  Loading of layouts with malformed rules is
in `Proofs/C17Load.lean` (it needs the metadata model).
-/
namespace InToto

/-- The documented grammar: the seven rule shapes (six generic keywords share
one constructor), keywords compared after lower-casing, operands verbatim. -/
inductive Parses : List Str → RuleData → Prop where
  | generic (kw pat : Str) (g : GenericType) :
      genericOfKeyword (lower kw) = some g → Parses [kw, pat] (.generic g pat)
  | match6 (kw pat a dt b dn : Str) (t : DestType) :
      lower kw = kMatch → lower a = kWith → lower b = kFrom →
      destTypeOfKeyword (lower dt) = some t →
      Parses [kw, pat, a, dt, b, dn] (.match_ pat [] [] t dn)
  | match8src (kw pat a sp b dt c dn : Str) (t : DestType) :
      lower kw = kMatch → lower a = kIn → lower b = kWith → lower c = kFrom →
      destTypeOfKeyword (lower dt) = some t →
      Parses [kw, pat, a, sp, b, dt, c, dn] (.match_ pat sp [] t dn)
  | match8dst (kw pat a dt b dp c dn : Str) (t : DestType) :
      lower kw = kMatch → lower a = kWith → lower b = kIn → lower c = kFrom →
      destTypeOfKeyword (lower dt) = some t →
      Parses [kw, pat, a, dt, b, dp, c, dn] (.match_ pat [] dp t dn)
  | match10 (kw pat a sp b dt c dp d dn : Str) (t : DestType) :
      lower kw = kMatch → lower a = kIn → lower b = kWith → lower c = kIn → lower d = kFrom →
      destTypeOfKeyword (lower dt) = some t →
      Parses [kw, pat, a, sp, b, dt, c, dp, d, dn] (.match_ pat sp dp t dn)

private theorem generic_ne_match {s : Str} {g : GenericType}
    (h : genericOfKeyword s = some g) : s ≠ kMatch := by
  intro hs; subst hs
  have : genericOfKeyword kMatch = none := by decide
  rw [this] at h; cases h

private theorem kIn_ne_kWith : kIn ≠ kWith := by decide

/-- Soundness half of the characterisation. -/
theorem parses_of_unpack {rule : List Str} {r : RuleData}
    (h : unpackStrs rule = .ok r) : Parses rule r := by
  unfold unpackStrs at h
  split at h
  · cases h
  · cases h
  · rename_i kw pattern rest
    split at h
    · rename_i g hg
      split at h
      · rename_i hr; subst hr; cases h; exact .generic _ _ _ hg
      · cases h
    · rename_i hg
      split at h
      · rename_i hm
        split at h
        · rename_i a sp b dt c dp d dn
          split at h
          · rename_i hk
            obtain ⟨h1, h2, h3, h4⟩ := hk
            unfold mkMatch at h; split at h
            · rename_i t ht; cases h; exact .match10 _ _ _ _ _ _ _ _ _ _ _ hm h1 h2 h3 h4 ht
            · cases h
          · cases h
        · rename_i a x b y c dn
          split at h
          · rename_i hk
            obtain ⟨h1, h2, h3⟩ := hk
            unfold mkMatch at h; split at h
            · rename_i t ht; cases h; exact .match8src _ _ _ _ _ _ _ _ _ hm h1 h2 h3 ht
            · cases h
          · split at h
            · rename_i hk
              obtain ⟨h1, h2, h3⟩ := hk
              unfold mkMatch at h; split at h
              · rename_i t ht; cases h; exact .match8dst _ _ _ _ _ _ _ _ _ hm h1 h2 h3 ht
              · cases h
            · cases h
        · rename_i a dt b dn
          split at h
          · rename_i hk
            obtain ⟨h1, h2⟩ := hk
            unfold mkMatch at h; split at h
            · rename_i t ht; cases h; exact .match6 _ _ _ _ _ _ _ hm h1 h2 ht
            · cases h
          · cases h
        · cases h
      · cases h

private theorem gk_match : genericOfKeyword kMatch = none := by decide
private theorem kWith_ne_kIn : ¬ (kWith = kIn) := by decide

/-- Completeness half of the characterisation. -/
theorem unpack_of_parses {rule : List Str} {r : RuleData}
    (h : Parses rule r) : unpackStrs rule = .ok r := by
  cases h with
  | generic kw pat g hg => simp [unpackStrs, hg]
  | match6 kw pat a dt b dn t hm h1 h2 ht =>
    simp [unpackStrs, mkMatch, gk_match, hm, h1, h2, ht]
  | match8src kw pat a sp b dt c dn t hm h1 h2 h3 ht =>
    simp [unpackStrs, mkMatch, gk_match, hm, h1, h2, h3, ht]
  | match8dst kw pat a dt b dp c dn t hm h1 h2 h3 ht =>
    simp [unpackStrs, mkMatch, gk_match, hm, h1, h2, h3, ht, kWith_ne_kIn]
  | match10 kw pat a sp b dt c dp d dn t hm h1 h2 h3 h4 ht =>
    simp [unpackStrs, mkMatch, gk_match, hm, h1, h2, h3, h4, ht]

/-- **C17 (positions / one meaning).** A list of strings is accepted exactly
when it has one of the documented shapes, and then its meaning is the one the
shape dictates; every other list is rejected with `FormatError`. Uniqueness of
the meaning is immediate (`unpackStrs` is a function). -/
theorem C17_positions (rule : List Str) (r : RuleData) :
    unpackStrs rule = .ok r ↔ Parses rule r :=
  ⟨parses_of_unpack, unpack_of_parses⟩

/-- **C17 (totality / error class).** Anything that is not accepted is
rejected with `FormatError`, never another outcome. -/
theorem C17_total (rule : List Tok) :
    (∃ r, unpackRule rule = .ok r) ∨ unpackRule rule = .error .format := by
  unfold unpackRule
  split
  · exact .inr rfl
  · rename_i ss _
    unfold unpackStrs mkMatch
    repeat' split
    all_goals first | exact .inr rfl | exact .inl ⟨_, rfl⟩

/-- A list with a non-string element is rejected. -/
theorem C17_nonstr_rejected (pre post : List Tok) :
    unpackRule (pre ++ .nonStr :: post) = .error .format := by
  have : allStrs (pre ++ .nonStr :: post) = none := by
    induction pre with
    | nil => rfl
    | cons t pre ih => cases t <;> simp [allStrs, ih]
  simp [unpackRule, this]

/-- **C17 (round trip).** Writing a parsed rule back out and parsing it again
gives the same meaning. `packRule` succeeds exactly when the rule is generic or
its step name is non-empty (an empty step name parses but cannot be written
back, as the property says). -/
theorem C17_roundtrip (r : RuleData) (out : List Str) (h : packRule r = .ok out) :
    unpackStrs out = .ok r := by
  cases r with
  | generic g pat =>
    cases h
    apply unpack_of_parses
    apply Parses.generic
    cases g <;> decide
  | match_ pat sp dp dt dn =>
    simp only [packRule] at h
    split at h
    · cases h
    · cases h
      apply unpack_of_parses
      by_cases hsp : sp = [] <;> by_cases hdp : dp = [] <;> simp only [hsp, hdp, if_true, if_false,
        List.append_nil, List.cons_append, List.nil_append]
      · subst hsp; subst hdp
        apply Parses.match6 <;> first | decide | (cases dt <;> decide)
      · subst hsp
        apply Parses.match8dst <;> first | decide | (cases dt <;> decide)
      · subst hdp
        apply Parses.match8src <;> first | decide | (cases dt <;> decide)
      · apply Parses.match10 <;> first | decide | (cases dt <;> decide)

theorem C17_pack_succeeds_iff (r : RuleData) :
    (∃ out, packRule r = .ok out) ↔
      (match r with | .generic _ _ => True | .match_ _ _ _ _ dn => dn ≠ []) := by
  cases r with
  | generic g pat => simp [packRule]
  | match_ pat sp dp dt dn =>
    by_cases h : dn = [] <;> simp [packRule, h]

/-- Corollary: parse ∘ write ∘ parse = parse, for every accepted token list
whose step name (if any) is non-empty. -/
theorem C17_roundtrip_from_tokens (rule : List Str) (r : RuleData) (out : List Str)
    (_h : unpackStrs rule = .ok r) (hp : packRule r = .ok out) :
    unpackStrs out = .ok r := C17_roundtrip r out hp

/-- **C17 (case-insensitive keywords, verbatim operands).** The result depends
on the tokens at even positions (0, 2, 4, 6, 8 — the only places a keyword other
than the destination kind can stand) only through their lower-casing … -/
theorem C17_case_even (kw kw' pat : Str) (rest rest' : List Str)
    (h0 : lower kw = lower kw')
    (hlen : rest.length = rest'.length)
    (hodd : ∀ i, i % 2 = 1 → rest[i]? = rest'[i]?)
    (heven : ∀ i, i % 2 = 0 → (rest[i]?).map lower = (rest'[i]?).map lower) :
    unpackStrs (kw :: pat :: rest) = unpackStrs (kw' :: pat :: rest') := by
  -- reduce to lists of equal, explicit length
  match rest, rest', hlen with
  | [], [], _ => simp [unpackStrs, h0]
  | [a], [a'], _ => simp [unpackStrs, h0]
  | [a, b], [a', b'], _ => simp [unpackStrs, h0]
  | [a, b, c], [a', b', c'], _ => simp [unpackStrs, h0]
  | [a, b, c, d], [a', b', c', d'], _ =>
    have e0 := heven 0 rfl; have e2 := heven 2 rfl
    have o1 := hodd 1 rfl; have o3 := hodd 3 rfl
    simp at e0 e2 o1 o3
    subst o1; subst o3
    simp [unpackStrs, h0, e0, e2]
  | [a, b, c, d, e], [a', b', c', d', e'], _ => simp [unpackStrs, h0]
  | [a, b, c, d, e, f], [a', b', c', d', e', f'], _ =>
    have e0 := heven 0 rfl; have e2 := heven 2 rfl; have e4 := heven 4 rfl
    have o1 := hodd 1 rfl; have o3 := hodd 3 rfl; have o5 := hodd 5 rfl
    simp at e0 e2 e4 o1 o3 o5
    subst o1; subst o3; subst o5
    simp [unpackStrs, h0, e0, e2, e4]
  | [a, b, c, d, e, f, g], [a', b', c', d', e', f', g'], _ => simp [unpackStrs, h0]
  | [a, b, c, d, e, f, g, h], [a', b', c', d', e', f', g', h'], _ =>
    have e0 := heven 0 rfl; have e2 := heven 2 rfl; have e4 := heven 4 rfl; have e6 := heven 6 rfl
    have o1 := hodd 1 rfl; have o3 := hodd 3 rfl; have o5 := hodd 5 rfl; have o7 := hodd 7 rfl
    simp at e0 e2 e4 e6 o1 o3 o5 o7
    subst o1; subst o3; subst o5; subst o7
    simp [unpackStrs, h0, e0, e2, e4, e6]
  | _ :: _ :: _ :: _ :: _ :: _ :: _ :: _ :: _ :: _, _ :: _ :: _ :: _ :: _ :: _ :: _ :: _ :: _ :: _, _ =>
    simp [unpackStrs, h0]

/-- … and on the destination-kind token (position 3 or 5) only through its
lower-casing as well. -/
theorem C17_case_desttype (rule : List Str) (r : RuleData) (h : Parses rule r) :
    ∀ dt', (match rule with
      | [kw, pat, a, dt, b, dn] =>
          lower a = kWith → lower dt' = lower dt → Parses [kw, pat, a, dt', b, dn] r
      | [kw, pat, a, x, b, y, c, dn] =>
          (lower a = kIn → lower dt' = lower y → Parses [kw, pat, a, x, b, dt', c, dn] r) ∧
          (lower a = kWith → lower dt' = lower x → Parses [kw, pat, a, dt', b, y, c, dn] r)
      | [kw, pat, a, sp, b, dt, c, dp, d, dn] =>
          lower dt' = lower dt → Parses [kw, pat, a, sp, b, dt', c, dp, d, dn] r
      | _ => True) := by
  intro dt'
  cases h with
  | generic => trivial
  | match6 kw pat a dt b dn t hm h1 h2 ht =>
    intro _ hd; exact .match6 _ _ _ _ _ _ _ hm h1 h2 (hd ▸ ht)
  | match8src kw pat a sp b dt c dn t hm h1 h2 h3 ht =>
    refine ⟨fun _ hd => .match8src _ _ _ _ _ _ _ _ _ hm h1 h2 h3 (hd ▸ ht), fun ha _ => ?_⟩
    rw [h1] at ha; exact absurd ha (by decide)
  | match8dst kw pat a dt b dp c dn t hm h1 h2 h3 ht =>
    refine ⟨fun ha _ => ?_, fun _ hd => .match8dst _ _ _ _ _ _ _ _ _ hm h1 h2 h3 (hd ▸ ht)⟩
    rw [h1] at ha; exact absurd ha (by decide)
  | match10 kw pat a sp b dt c dp d dn t hm h1 h2 h3 h4 ht =>
    intro hd; exact .match10 _ _ _ _ _ _ _ _ _ _ _ hm h1 h2 h3 h4 (hd ▸ ht)

/-! Non-vacuity: concrete rules meet the hypotheses. -/
example : unpackStrs [lit "MaTcH", lit "*.py", lit "in", lit "src", lit "WITH", lit "Products",
    lit "IN", lit "dst", lit "fRoM", lit "build"]
    = .ok (.match_ (lit "*.py") (lit "src") (lit "dst") .products (lit "build")) := by decide
example : unpackStrs [lit "require", lit "MATCH"] = .ok (.generic .require (lit "MATCH")) := by decide
example : unpackStrs [lit "MATCH", lit "x", lit "WITH", lit "PRODUCTS", lit "FROM"] = .error .format := by
  decide
example : packRule (.match_ (lit "a") [] (lit "d") .materials (lit "s"))
    = .ok [lit "MATCH", lit "a", lit "WITH", lit "MATERIALS", lit "IN", lit "d", lit "FROM", lit "s"] := by
  decide

end InToto
