import Proofs.C09
import Proofs.Canon
/-!
# C09 — content-level statements (signature theorems + injectivity of the encodings)
-/
namespace InToto

/-- **C09 (traditional format, content level).** The signatures present were made
for the canonical bytes of payload `p0`; the metadata now carries a payload whose
JSON differs from `p0`'s by more than the order of object members. Then no key
verifies it. -/
theorem C09_content_edit_detected (S : Scheme) (nowSec : Int) (sigs : List SigEntry) (p0 p : Payload) (m0 : Str)
    (h0 : p0.signableBytes = some m0) (hmade : MadeFor S (.metablock sigs p) m0)
    (hne : norm p.toJ ≠ norm p0.toJ) (keyJ : JVal) :
    (Metadata.metablock sigs p).verifySignature S nowSec keyJ ≠ .ok := by
  cases hp : p.signableBytes with
  | none =>
    intro h
    obtain ⟨_, _, _, _, msg, _, hb, _, _⟩ := sigcheck_ok_sound S nowSec _ keyJ h
    simp only [Metadata.signedBytes, hp] at hb
    cases hb
  | some m1 =>
    exact C09_edit_detected S nowSec _ m0 m1 hmade (by simp [Metadata.signedBytes, hp])
      (canon_ne_of_norm_ne _ _ m1 m0 hp h0 hne) keyJ

/-- **C09 (DSSE, content level).** The signatures present were made for the
pre-authentication encoding of payload text `t0`; the envelope now carries a
different payload text. Then no key verifies it. -/
theorem C09_envelope_edit_detected (S : Scheme) (nowSec : Int) (sigs : List SigEntry) (t0 t : Str) (aux : Option JVal)
    (hmade : MadeFor S (.envelope sigs t aux) (pae envelopePayloadType t0)) (hne : t ≠ t0) (keyJ : JVal) :
    (Metadata.envelope sigs t aux).verifySignature S nowSec keyJ ≠ .ok :=
  C09_edit_detected S nowSec _ _ _ hmade rfl (fun h => hne (pae_injective _ _ _ h)) keyJ

end InToto
