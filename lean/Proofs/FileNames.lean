import Proofs.C12Names
import InToto.Verify
/-!
# The file name under which evidence is looked for determines step and key

`load_links_for_layout` looks for the link of step `s` by key `k` under
`<s>.<k[:8]>.link`, `verify_sublayouts` for the links of a sublayout under the
directory `<s>.<k[:8]>`. Key ids are hexadecimal (no dot), so these names can be
read back: no file is looked for under two different (step name, key-id prefix)
pairs — whatever the step names are (one a prefix of the other, with dots, …).
-/
namespace InToto

theorem linkFileName_injective (s s' k k' : Str) (hk : '.' ∉ k) (hk' : '.' ∉ k')
    (h : linkFileName s k = linkFileName s' k') : s = s' ∧ trunc8 k = trunc8 k' := by
  unfold linkFileName at h
  have h' : (s ++ '.' :: trunc8 k) ++ lit ".link" = (s' ++ '.' :: trunc8 k') ++ lit ".link" := by
    simpa using h
  exact split_last_dot s s' (trunc8 k) (trunc8 k') (take_no_dot hk) (take_no_dot hk') (List.append_cancel_right h')

theorem sublayoutDirName_injective (s s' k k' : Str) (hk : '.' ∉ k) (hk' : '.' ∉ k')
    (h : sublayoutDirName s k = sublayoutDirName s' k') : s = s' ∧ trunc8 k = trunc8 k' := by
  unfold sublayoutDirName at h
  exact split_last_dot s s' (trunc8 k) (trunc8 k') (take_no_dot hk) (take_no_dot hk') h

/-- Hexadecimal strings contain no dot. -/
theorem isHex_no_dot (k : Str) (h : isHex k = true) : '.' ∉ k := by
  intro hm
  unfold isHex at h
  simp only [ne_eq, Bool.and_eq_true, decide_eq_true_eq, List.all_eq_true] at h
  have := h.2 '.' hm
  simp [isHexChar] at this

end InToto
