import Proofs.Sound
import Proofs.C04
import Proofs.C03
import Proofs.C03Pipeline
/-!
# C04 at the level of a whole verification: a closed chain is tamper evident

`C04_rules_iff` says when a closed rule list passes on given links.
`C04_chain_tamper_evident` places it in the pipeline: if a verification succeeds
and a step's material rules are the closed list that refers to another step
(`REQUIRE` each product of that step, `MATCH * WITH PRODUCTS FROM` it,
`DISALLOW *`), then the link **used** for the step — which by `verify_sound` is a
validly signed link of an authorised functionary — records as materials exactly
the products of the link used for the other step: the same paths with equal hash
records. Anything that changes what is recorded between the two steps (a file
modified, added, removed, renamed) therefore fails the verification.
-/
namespace InToto

variable (gm : Str → Str → Bool) (w : World)

theorem linksArts_get? : ∀ (d : Dict Str Link) (k : Str) (lk : Link), Dict.get? d k = some lk →
    Dict.get? (linksArts d) k = some lk.arts
  | p :: r, k, lk, h => by
    by_cases hp : p.1 = k
    · simp only [Dict.get?, List.find?_cons, hp, decide_true, Option.map_some, Option.some.injEq] at h
      simp [linksArts, Dict.get?, hp, h]
    · have h' : Dict.get? r k = some lk := by
        simp only [Dict.get?, List.find?_cons, hp, decide_false] at h ⊢
        exact h
      have := linksArts_get? r k lk h'
      simp only [linksArts, Dict.get?, List.map_cons, List.find?_cons, hp, decide_false] at this ⊢
      exact this

theorem stepItems_mem {l : Layout} {items : List RuleItem} (h : stepItems l = .ok items)
    (step : Step) (hs : step ∈ l.steps) (name : Str) (hn : step.name = some name) :
    step.ruleItem name ∈ items := by
  obtain ⟨_, h2, _⟩ := mapE_ok_inv _ _ _ h
  obtain ⟨y, hy, hfy⟩ := h2 step hs
  simp only [hn, nameOf, Except.map, Except.ok.injEq] at hfy
  exact hfy ▸ hy

/-- **C04 (closed chains are tamper evident, for whole verifications).** -/
theorem C04_chain_tamper_evident (hstar : ∀ s, gm (lit "*") s = true)
    {fuel : Nat} {md : Metadata} {keys : List (Str × JVal)} {dir : Str}
    {params : Option (List (Str × Option Str))} {stepName : Str} {s : Link}
    (h : (verify gm w (fuel + 1) md keys dir params stepName).result = .ok s) :
    ∃ st : Stages gm w fuel md keys dir params stepName s,
      ∀ step ∈ st.layout.steps, ∀ prevStep ∈ st.layout.steps, ∀ name prev lk lkPrev,
        step.name = some name → prevStep.name = some prev →
        Dict.get? st.reduced name = some lk → Dict.get? st.reduced prev = some lkPrev →
        step.expectedMaterials = closedRules prev lkPrev.products.keys →
        (∀ p ∈ lkPrev.products.keys, p ∈ lk.materials.keys) ∧
        (∀ p ∈ lk.materials.keys, ∃ a b, lk.materials.get? p = some a ∧ lkPrev.products.get? p = some b ∧
          hashEq a b = true) := by
  obtain ⟨st⟩ := verify_ok_inv gm w h
  obtain ⟨_, _, items, hitems, hrules⟩ := checkChain_ok_inv gm st.hchain
  refine ⟨st, ?_⟩
  intro step hstep prevStep _ name prev lk lkPrev hname _ hlk hprev hclosed
  have hmem := stepItems_mem hitems step hstep name hname
  obtain ⟨⟨qm, hqm⟩, _⟩ := (C03_all_items gm _ _).mp hrules _ hmem
  simp only [Step.ruleItem, hclosed] at hqm
  exact (C04_rules_iff gm hstar name prev lk.arts lkPrev.arts (linksArts st.reduced)
    (linksArts_get? _ _ _ hlk) (linksArts_get? _ _ _ hprev)).mp ⟨qm, hqm⟩

theorem inspItems_mem {l : Layout} {items : List RuleItem} (h : inspItems l = .ok items)
    (i : Inspection) (hi : i ∈ l.inspect) (name : Str) (hn : i.name = some name) :
    i.ruleItem name ∈ items := by
  obtain ⟨_, h2, _⟩ := mapE_ok_inv _ _ _ h
  obtain ⟨y, hy, hfy⟩ := h2 i hi
  simp only [hn, nameOf, Except.map, Except.ok.injEq] at hfy
  exact hfy ▸ hy

/-- **C04 (the final product).** If a verification succeeds and an inspection's
material rules are the closed list that refers to a step, then what the
inspection's command recorded as materials — the files as they are where the
verification runs — is exactly what the link used for that step records as
products. A final product that was modified, extended, reduced or renamed after
the last recorded step fails the verification. -/
theorem C04_final_product_tamper_evident (hstar : ∀ s, gm (lit "*") s = true)
    {fuel : Nat} {md : Metadata} {keys : List (Str × JVal)} {dir : Str}
    {params : Option (List (Str × Option Str))} {stepName : Str} {s : Link} (hd : md.AllNamesDistinct)
    (h : (verify gm w (fuel + 1) md keys dir params stepName).result = .ok s) :
    ∃ st : Stages gm w fuel md keys dir params stepName s,
      ∀ i ∈ st.layout.inspect, ∀ prevStep ∈ st.layout.steps, ∀ prev lkPrev,
        prevStep.name = some prev → Dict.get? st.reduced prev = some lkPrev →
        i.expectedMaterials = closedRules prev lkPrev.products.keys →
        ∃ name lk, InspLink w i name lk ∧
          (∀ p ∈ lkPrev.products.keys, p ∈ lk.materials.keys) ∧
          (∀ p ∈ lk.materials.keys, ∃ a b, lk.materials.get? p = some a ∧ lkPrev.products.get? p = some b ∧
            hashEq a b = true) := by
  obtain ⟨st, hir, hinsp, hsteps⟩ := C03_inspection_rules_see_all gm w hd h
  refine ⟨st, ?_⟩
  intro i hi prevStep hprevStep prev lkPrev hprevName hprev hclosed
  obtain ⟨name, lk, hil, hget⟩ := hinsp i hi
  refine ⟨name, lk, hil, ?_⟩
  unfold checkInspections at hir
  split at hir
  · cases hir
  · rename_i items hitems
    have hmem := inspItems_mem hitems i hi name hil.1
    obtain ⟨⟨qm, hqm⟩, _⟩ := (C03_all_items gm _ _).mp hir _ hmem
    simp only [Inspection.ruleItem, hclosed] at hqm
    have hprev' : Dict.get? (Dict.update st.reduced st.inspLinks) prev = some lkPrev := by
      rw [hsteps prevStep hprevStep prev hprevName]
      exact hprev
    exact (C04_rules_iff gm hstar name prev lk.arts lkPrev.arts _
      (linksArts_get? _ _ _ hget) (linksArts_get? _ _ _ hprev')).mp ⟨qm, hqm⟩

end InToto
