import InToto.Verify
import Proofs.C05
/-!
# C09 — loading what was written yields the same object, hence the same signed bytes

`Metablock.dump` writes `attr.asdict` of the payload (`Payload.toJ`); loading
that file runs the readers and validators again. The theorems here say that the
readers are exact inverses of `toJ` on everything they accept: a payload that
was itself obtained by reading (or, equivalently, that passes validation) is
read back **identically** from its own serialisation, so its signable bytes
after a disk round trip are the same bytes.
-/
namespace InToto

theorem bind_ok_iff {α β : Type} (x : Except Err α) (f : α → Except Err β) (b : β) :
    (x >>= f) = .ok b ↔ ∃ a, x = .ok a ∧ f a = .ok b := by
  cases x with
  | error e => simp [bind, Except.bind]
  | ok a => simp [bind, Except.bind]

theorem mapE_map_of {α β : Type} (f : α → Except Err β) (g : β → α) :
    ∀ (r : List β), (∀ y ∈ r, f (g y) = .ok y) → mapE f (r.map g) = .ok r
  | [], _ => rfl
  | y :: r, h => by
    simp only [List.map_cons, mapE, h y List.mem_cons_self,
      mapE_map_of f g r (fun z hz => h z (List.mem_cons_of_mem _ hz))]

/-- If `f x = .ok y` forces `x = g y`, then `mapE f l = .ok r` forces `l = r.map g`. -/
theorem mapE_exact {α β : Type} (f : α → Except Err β) (g : β → α) (hfg : ∀ x y, f x = .ok y → x = g y) :
    ∀ (l : List α) (r : List β), mapE f l = .ok r → l = r.map g
  | [], r, h => by simp [mapE] at h; subst h; rfl
  | x :: l, r, h => by
    simp only [mapE] at h
    split at h
    · cases h
    · rename_i y hy
      split at h
      · cases h
      · rename_i ys hys
        cases h
        simp only [List.map_cons, List.cons.injEq]
        exact ⟨hfg x y hy, mapE_exact f g hfg l ys hys⟩

/-! ## The field readers are exact -/

theorem readHashRec_exact (j : JVal) (h : HashRec) (hr : readHashRec j = .ok h) : j = hashRecJ h := by
  cases j with
  | obj kvs =>
    simp only [readHashRec] at hr
    have := mapE_exact _ (fun (kv : Str × Str) => (kv.1, JVal.str kv.2)) ?_ kvs h hr
    · simp only [hashRecJ, this]
    · intro x y hxy
      obtain ⟨k, v⟩ := x
      split at hxy
      · rename_i s hs
        simp only at hs
        split at hxy
        · cases hxy
          simp only [hs]
        · cases hxy
      · cases hxy
  | _ => simp [readHashRec] at hr

theorem readArtifacts_exact (j : JVal) (a : Artifacts) (hr : readArtifacts j = .ok a) : j = artifactsJ a := by
  cases j with
  | obj kvs =>
    simp only [readArtifacts] at hr
    have := mapE_exact _ (fun (kv : Str × HashRec) => (kv.1, hashRecJ kv.2)) ?_ kvs a hr
    · simp only [artifactsJ, this]
    · intro x y hxy
      obtain ⟨k, v⟩ := x
      simp only at hxy
      cases hh : readHashRec v with
      | error e => simp [hh, Except.map] at hxy
      | ok hrec =>
        simp only [hh, Except.map, Except.ok.injEq] at hxy
        subst hxy
        simp only [readHashRec_exact v hrec hh]
  | _ => simp [readArtifacts] at hr

theorem readObj_exact (j : JVal) (kvs : List (Str × JVal)) (hr : readObj j = .ok kvs) : j = .obj kvs := by
  cases j <;> simp [readObj] at hr
  subst hr; rfl

theorem readArr_exact (j : JVal) (xs : List JVal) (hr : readArr j = .ok xs) : j = .arr xs := by
  cases j <;> simp [readArr] at hr
  subst hr; rfl

theorem readInt_exact (j : JVal) (n : Int) (hr : readInt j = .ok n) : j = .int n := by
  cases j <;> simp [readInt] at hr
  subst hr; rfl

theorem allStrs_exact : ∀ (toks : List JVal) (ss : List Str), allStrs (toks.map tokOfJ) = some ss →
    toks = ss.map JVal.str
  | [], ss, h => by simp [allStrs] at h; subst h; rfl
  | t :: r, ss, h => by
    cases t with
    | str s =>
      simp only [List.map_cons, tokOfJ, allStrs, Option.map_eq_some_iff] at h
      obtain ⟨ss', hs, rfl⟩ := h
      simp only [List.map_cons, allStrs_exact r ss' hs]
    | _ => simp [tokOfJ, allStrs] at h

theorem filterMap_strs (f : JVal → Option Str) (hf : ∀ s, f (.str s) = some s) (ss : List Str) :
    (ss.map JVal.str).filterMap f = ss := by
  induction ss with
  | nil => rfl
  | cons s r ih => simp [List.filterMap_cons, hf, ih]

theorem readRule_exact (j : JVal) (r : List Str) (hr : readRule j = .ok r) : j = .arr (r.map .str) := by
  cases j with
  | arr toks =>
    simp only [readRule] at hr
    split at hr
    · rename_i rd hu
      cases hr
      unfold unpackRule at hu
      split at hu
      · cases hu
      · rename_i ss hs
        have := allStrs_exact toks ss hs
        subst this
        rw [filterMap_strs _ (fun _ => rfl)]
    · cases hr
  | _ => simp [readRule] at hr

theorem readRules_exact (j : JVal) (rs : List (List Str)) (hr : readRules j = .ok rs) : j = rulesJ rs := by
  cases j with
  | arr rules =>
    simp only [readRules] at hr
    have := mapE_exact readRule (fun r => JVal.arr (r.map .str)) readRule_exact rules rs hr
    simp only [rulesJ, this]
  | _ => simp [readRules] at hr

theorem readHexList_exact (j : JVal) (l : List Str) (hr : readHexList j = .ok l) : j = .arr (l.map .str) := by
  cases j with
  | arr xs =>
    simp only [readHexList] at hr
    have := mapE_exact _ JVal.str ?_ xs l hr
    · simp only [this]
    · intro x y hxy
      split at hxy
      · split at hxy
        · cases hxy; rfl
        · cases hxy
      · cases hxy
  | _ => simp [readHexList] at hr

theorem readName_toJ (n : Option Str) (rest : List (Str × JVal)) (t : JVal) :
    readName ((lit "_type", t) :: (lit "name", nameJ n) :: rest) = .ok n := by
  cases n with
  | none => simp [readName, Dict.get?, nameJ, lit]
  | some s => simp [readName, Dict.get?, nameJ, lit]

/-! ## Links, steps, inspections, layouts -/

/-- **C09 (a link read from JSON is read back identically from its own serialisation).** -/
theorem readLink_toJ (j : JVal) (l : Link) (h : readLink j = .ok l) : readLink l.toJ = .ok l := by
  cases j with
  | obj kvs =>
    simp only [readLink, bind_ok_iff, pure, Except.pure, Except.ok.injEq] at h
    obtain ⟨name, _, materials, hm, products, hp, byproducts, hb, command, hc, environment, he, rfl⟩ := h
    have hm' := readArtifacts_exact _ _ hm
    have hp' := readArtifacts_exact _ _ hp
    rw [hm'] at hm
    rw [hp'] at hp
    simp only [Link.toJ, readLink, readName_toJ, bind, Except.bind]
    have e1 : getD [(lit "_type", JVal.str (lit "link")), (lit "name", nameJ name),
        (lit "materials", artifactsJ materials), (lit "products", artifactsJ products),
        (lit "byproducts", JVal.obj byproducts), (lit "command", JVal.arr command),
        (lit "environment", JVal.obj environment)] "materials" (.obj []) = artifactsJ materials := by
      simp [getD, Dict.get?, lit]
    have e2 : getD [(lit "_type", JVal.str (lit "link")), (lit "name", nameJ name),
        (lit "materials", artifactsJ materials), (lit "products", artifactsJ products),
        (lit "byproducts", JVal.obj byproducts), (lit "command", JVal.arr command),
        (lit "environment", JVal.obj environment)] "products" (.obj []) = artifactsJ products := by
      simp [getD, Dict.get?, lit]
    have e3 : getD [(lit "_type", JVal.str (lit "link")), (lit "name", nameJ name),
        (lit "materials", artifactsJ materials), (lit "products", artifactsJ products),
        (lit "byproducts", JVal.obj byproducts), (lit "command", JVal.arr command),
        (lit "environment", JVal.obj environment)] "byproducts" (.obj []) = .obj byproducts := by
      simp [getD, Dict.get?, lit]
    have e4 : getD [(lit "_type", JVal.str (lit "link")), (lit "name", nameJ name),
        (lit "materials", artifactsJ materials), (lit "products", artifactsJ products),
        (lit "byproducts", JVal.obj byproducts), (lit "command", JVal.arr command),
        (lit "environment", JVal.obj environment)] "command" (.arr []) = .arr command := by
      simp [getD, Dict.get?, lit]
    have e5 : getD [(lit "_type", JVal.str (lit "link")), (lit "name", nameJ name),
        (lit "materials", artifactsJ materials), (lit "products", artifactsJ products),
        (lit "byproducts", JVal.obj byproducts), (lit "command", JVal.arr command),
        (lit "environment", JVal.obj environment)] "environment" (.obj []) = .obj environment := by
      simp [getD, Dict.get?, lit]
    simp only [e1, e2, e3, e4, e5, hm, hp, readObj, readArr, pure, Except.pure]
  | _ => simp [readLink] at h

theorem readStep_toJ (j : JVal) (s : Step) (h : readStep j = .ok s) : readStep s.toJ = .ok s := by
  cases j with
  | obj kvs =>
    simp only [readStep, bind_ok_iff, pure, Except.pure, Except.ok.injEq] at h
    obtain ⟨name, _, em, hm, ep, hp, pk, hk, ec, hc, thr, ht, rfl⟩ := h
    rw [readRules_exact _ _ hm] at hm
    rw [readRules_exact _ _ hp] at hp
    rw [readHexList_exact _ _ hk] at hk
    simp only [Step.toJ, readStep, readName_toJ, bind, Except.bind]
    have e1 : getD [(lit "_type", JVal.str (lit "step")), (lit "name", nameJ name),
        (lit "expected_materials", rulesJ em), (lit "expected_products", rulesJ ep),
        (lit "pubkeys", JVal.arr (pk.map .str)), (lit "expected_command", JVal.arr ec),
        (lit "threshold", JVal.int thr)] "expected_materials" (.arr []) = rulesJ em := by
      simp [getD, Dict.get?, lit]
    have e2 : getD [(lit "_type", JVal.str (lit "step")), (lit "name", nameJ name),
        (lit "expected_materials", rulesJ em), (lit "expected_products", rulesJ ep),
        (lit "pubkeys", JVal.arr (pk.map .str)), (lit "expected_command", JVal.arr ec),
        (lit "threshold", JVal.int thr)] "expected_products" (.arr []) = rulesJ ep := by
      simp [getD, Dict.get?, lit]
    have e3 : getD [(lit "_type", JVal.str (lit "step")), (lit "name", nameJ name),
        (lit "expected_materials", rulesJ em), (lit "expected_products", rulesJ ep),
        (lit "pubkeys", JVal.arr (pk.map .str)), (lit "expected_command", JVal.arr ec),
        (lit "threshold", JVal.int thr)] "pubkeys" (.arr []) = .arr (pk.map .str) := by
      simp [getD, Dict.get?, lit]
    have e4 : getD [(lit "_type", JVal.str (lit "step")), (lit "name", nameJ name),
        (lit "expected_materials", rulesJ em), (lit "expected_products", rulesJ ep),
        (lit "pubkeys", JVal.arr (pk.map .str)), (lit "expected_command", JVal.arr ec),
        (lit "threshold", JVal.int thr)] "expected_command" (.arr []) = .arr ec := by
      simp [getD, Dict.get?, lit]
    have e5 : getD [(lit "_type", JVal.str (lit "step")), (lit "name", nameJ name),
        (lit "expected_materials", rulesJ em), (lit "expected_products", rulesJ ep),
        (lit "pubkeys", JVal.arr (pk.map .str)), (lit "expected_command", JVal.arr ec),
        (lit "threshold", JVal.int thr)] "threshold" (.int 1) = .int thr := by
      simp [getD, Dict.get?, lit]
    simp only [e1, e2, e3, e4, e5, hm, hp, hk, readArr, readInt, pure, Except.pure]
  | _ => simp [readStep] at h

theorem readInspection_toJ (j : JVal) (i : Inspection) (h : readInspection j = .ok i) :
    readInspection i.toJ = .ok i := by
  cases j with
  | obj kvs =>
    simp only [readInspection, bind_ok_iff, pure, Except.pure, Except.ok.injEq] at h
    obtain ⟨name, _, em, hm, ep, hp, run, hc, rfl⟩ := h
    rw [readRules_exact _ _ hm] at hm
    rw [readRules_exact _ _ hp] at hp
    simp only [Inspection.toJ, readInspection, readName_toJ, bind, Except.bind]
    have e1 : getD [(lit "_type", JVal.str (lit "inspection")), (lit "name", nameJ name),
        (lit "expected_materials", rulesJ em), (lit "expected_products", rulesJ ep),
        (lit "run", JVal.arr run)] "expected_materials" (.arr []) = rulesJ em := by
      simp [getD, Dict.get?, lit]
    have e2 : getD [(lit "_type", JVal.str (lit "inspection")), (lit "name", nameJ name),
        (lit "expected_materials", rulesJ em), (lit "expected_products", rulesJ ep),
        (lit "run", JVal.arr run)] "expected_products" (.arr []) = rulesJ ep := by
      simp [getD, Dict.get?, lit]
    have e3 : getD [(lit "_type", JVal.str (lit "inspection")), (lit "name", nameJ name),
        (lit "expected_materials", rulesJ em), (lit "expected_products", rulesJ ep),
        (lit "run", JVal.arr run)] "run" (.arr []) = .arr run := by
      simp [getD, Dict.get?, lit]
    simp only [e1, e2, e3, hm, hp, readArr, pure, Except.pure]
  | _ => simp [readInspection] at h

/-- The value under `steps` / `inspect` as the reader sees it. -/
def listOf (kvs : List (Str × JVal)) (k : String) : Option (List JVal) :=
  match Dict.get? kvs k.toList with
  | some (.arr xs) => some xs
  | some (.obj []) => some []
  | some (.str []) => some []
  | _ => none

/-- What a successfully read layout went through. -/
theorem readLayout_ok_inv (kvs : List (Str × JVal)) (l : Layout) (h : readLayout (.obj kvs) = .ok l) :
    (∃ stepsJ, listOf kvs "steps" = some stepsJ ∧ mapE readStep stepsJ = .ok l.steps) ∧
    (∃ inspJ, listOf kvs "inspect" = some inspJ ∧ mapE readInspection inspJ = .ok l.inspect) ∧
    readObj (getD kvs "keys" (.obj [])) = .ok l.keys ∧ checkPublicKeys l.keys = .ok () ∧
    l.expires ≠ [] ∧ (expiryInstant l.expires).isSome = true ∧
    namesDistinct (l.steps.map (·.name) ++ l.inspect.map (·.name)) = true := by
  unfold readLayout at h
  simp only [bind, Except.bind, pure, Except.pure, throw, throwThe, MonadExceptOf.throw] at h
  repeat' split at h
  all_goals (try cases h)
  all_goals simp_all [listOf, lit]

theorem mapE_reread {α β : Type} (f : α → Except Err β) (g : β → α) (hfg : ∀ x y, f x = .ok y → f (g y) = .ok y)
    (l : List α) (r : List β) (h : mapE f l = .ok r) : mapE f (r.map g) = .ok r := by
  apply mapE_map_of
  intro y hy
  obtain ⟨x, _, hx⟩ := (mapE_ok_inv f l r h).1 y hy
  exact hfg x y hx

/-- **C09 (a layout read from JSON is read back identically from its own serialisation).** -/
theorem readLayout_toJ (j : JVal) (l : Layout) (h : readLayout j = .ok l) : readLayout l.toJ = .ok l := by
  cases j with
  | obj kvs =>
    obtain ⟨⟨stepsJ, _, hs⟩, ⟨inspJ, _, hi⟩, _, hck, hne, hexp, hnd⟩ := readLayout_ok_inv kvs l h
    have hS := mapE_reread readStep Step.toJ readStep_toJ _ _ hs
    have hI := mapE_reread readInspection Inspection.toJ readInspection_toJ _ _ hi
    simp [readLayout, Layout.toJ, Dict.get?, getD, lit, hS, hI, readObj, hck, bind, Except.bind, pure, Except.pure,
      hne, hexp, hnd]
  | _ => simp [readLayout] at h

/-- **C09 (disk round trip, payload level).** Whatever `Metablock.from_dict` /
`Envelope.get_payload` accepted is read back identically from `attr.asdict` of
it — the same object, hence the same signable bytes. -/
theorem C09_reload (bad bad' : Err) (j : JVal) (p : Payload) (h : readPayload bad j = .ok p) :
    readPayload bad' p.toJ = .ok p := by
  unfold readPayload at h
  simp only at h
  split at h
  · cases h
  · rename_i p' hp
    split at h
    · rename_i hsb
      cases h
      have hne : lit "layout" ≠ lit "link" := by decide
      split at hp
      · split at hp
        · cases hr : readLink j with
          | error e => simp [hr, Except.map] at hp
          | ok lk =>
            simp only [hr, Except.map, Except.ok.injEq] at hp
            subst hp
            have h1 : (Payload.link lk).toJ.getKey? (lit "_type") = some (.str (lit "link")) := by
              simp [Payload.toJ, Link.toJ, JVal.getKey?, Dict.get?, lit]
            unfold readPayload
            rw [h1]
            simp only [if_true, Payload.toJ, readLink_toJ j lk hr, Except.map]
            simp [hsb]
        · split at hp
          · cases hr : readLayout j with
            | error e => simp [hr, Except.map] at hp
            | ok l =>
              simp only [hr, Except.map, Except.ok.injEq] at hp
              subst hp
              have h1 : (Payload.layout l).toJ.getKey? (lit "_type") = some (.str (lit "layout")) := by
                simp [Payload.toJ, Layout.toJ, JVal.getKey?, Dict.get?, lit]
              unfold readPayload
              rw [h1]
              simp only [hne, if_false, if_true, Payload.toJ, readLayout_toJ j l hr, Except.map]
              simp [hsb]
          · cases hp
      · cases hp
    · cases h

/-- **C09 (disk round trip, file level, traditional format).** Writing a loaded
Metablock and loading the file again yields the same payload object — and so
(`Metadata.signedBytes`) the same bytes under the signatures. -/
theorem C09_reload_metablock (j : JVal) (p : Payload) (h : readPayload .format j = .ok p)
    (sigsJ : List JVal) (aux : Option EnvAux) :
    Metadata.fromDict (.obj [(lit "signatures", .arr sigsJ), (lit "signed", p.toJ)]) aux =
      (mapE readSigEntry sigsJ).map (fun sigs => .metablock sigs p) := by
  have hp := C09_reload .format .format j p h
  have e1 : hasKey [(lit "signatures", JVal.arr sigsJ), (lit "signed", p.toJ)] "payload" = false := by
    simp [hasKey, Dict.contains, lit]
  have e2 : hasKey [(lit "signatures", JVal.arr sigsJ), (lit "signed", p.toJ)] "signed" = true := by
    simp [hasKey, Dict.contains, lit]
  have e3 : getD [(lit "signatures", JVal.arr sigsJ), (lit "signed", p.toJ)] "signatures" (.arr []) = .arr sigsJ := by
    simp [getD, Dict.get?, lit]
  have e4 : getD [(lit "signatures", JVal.arr sigsJ), (lit "signed", p.toJ)] "signed" (.obj []) = p.toJ := by
    simp [getD, Dict.get?, lit]
  simp only [Metadata.fromDict, e1, e2, e3, e4, hp, readArr, bind, Except.bind, pure, Except.pure]
  cases mapE readSigEntry sigsJ <;> simp [Except.map]

end InToto
