import InToto.Rules
/-!
# C03 — artifact rules act as the documented ordered filter

Theorems about `InToto.applyRule` / `applyRules` / `verifyItemRules`
(model of `verifylib.verify_*_rule`, `verify_item_rules`) for an *arbitrary*
glob matcher `gm`.
-/
namespace InToto

variable (gm : Str → Str → Bool)

/-! ## Dictionary facts used below -/

theorem Dict.contains_iff {α : Type} (d : Dict Str α) (k : Str) :
    d.contains k = true ↔ k ∈ d.keys := by
  simp [Dict.contains, Dict.keys, List.any_eq_true]

/-! ## The documented definitions of the generic rules -/

/-- CREATE: in the products but not in the materials. -/
theorem genericCond_create (item : LinkArts) (p : Str) :
    genericCond .create item p = true ↔ p ∈ item.products.keys ∧ p ∉ item.materials.keys := by
  simp [genericCond, Dict.contains_iff, ← Bool.not_eq_true]

/-- DELETE: in the materials but not in the products. -/
theorem genericCond_delete (item : LinkArts) (p : Str) :
    genericCond .delete item p = true ↔ p ∈ item.materials.keys ∧ p ∉ item.products.keys := by
  simp [genericCond, Dict.contains_iff, ← Bool.not_eq_true]

/-- MODIFY: in both with different hash records. -/
theorem genericCond_modify (item : LinkArts) (p : Str) :
    genericCond .modify item p = true ↔
      ∃ m q, item.materials.get? p = some m ∧ item.products.get? p = some q ∧ hashEq m q = false := by
  cases h1 : item.materials.get? p <;> cases h2 : item.products.get? p <;>
    simp [genericCond, h1, h2]

/-- ALLOW: every matching artifact. -/
theorem genericCond_allow (item : LinkArts) (p : Str) : genericCond .allow item p = true := rfl

/-! ## One rule -/

/-- **C03 (CREATE / DELETE / MODIFY / ALLOW).** The rule never fails and removes
from the queue exactly the artifacts that match the pattern and satisfy the
rule's definition. -/
theorem C03_consuming (g : GenericType)
    (hg : g = .create ∨ g = .delete ∨ g = .modify ∨ g = .allow)
    (links : Dict Str LinkArts) (item : LinkArts) (arts : Artifacts) (q : List Str) (pat : Str) :
    ∃ q', applyRule gm links item arts q (.generic g pat) = .ok q' ∧
      ∀ p, p ∈ q' ↔ (p ∈ q ∧ ¬ (gm pat p = true ∧ genericCond g item p = true)) := by
  rcases hg with rfl | rfl | rfl | rfl <;>
    exact ⟨_, rfl, fun p => by
      simp only [List.mem_filter]
      cases gm pat p <;> simp⟩

/-- **C03 (DISALLOW).** Fails iff a remaining artifact matches; never changes the queue. -/
theorem C03_disallow (links : Dict Str LinkArts) (item : LinkArts) (arts : Artifacts)
    (q : List Str) (pat : Str) :
    (applyRule gm links item arts q (.generic .disallow pat) = .error .rule ↔ ∃ p ∈ q, gm pat p = true) ∧
    ((¬ ∃ p ∈ q, gm pat p = true) → applyRule gm links item arts q (.generic .disallow pat) = .ok q) := by
  by_cases h : q.any (gm pat) = true
  · have h' := h; rw [List.any_eq_true] at h'
    simp [applyRule, h, h']
  · have h' := h; rw [List.any_eq_true] at h'
    simp only [applyRule, h]
    simp at h'
    simp
    exact h'

/-- **C03 (REQUIRE).** Fails iff the named artifact is not among the remaining ones
(the operand is a name, not a pattern); never changes the queue. -/
theorem C03_require (links : Dict Str LinkArts) (item : LinkArts) (arts : Artifacts)
    (q : List Str) (name : Str) :
    (applyRule gm links item arts q (.generic .require name) = .error .rule ↔ name ∉ q) ∧
    (name ∈ q → applyRule gm links item arts q (.generic .require name) = .ok q) := by
  by_cases h : q.contains name = true
  · have h' := h; rw [List.contains_iff_mem] at h'
    simp [applyRule, h, h']
  · have h' := h; rw [List.contains_iff_mem] at h'
    simp [applyRule, h, h']

/-! ## MATCH -/

theorem allSome_mem {α β : Type} (f : α → Option β) :
    ∀ (l : List α) (r : List β), allSome f l = some r → ∀ y, y ∈ r → ∃ x ∈ l, f x = some y := by
  intro l
  induction l with
  | nil => intro r h y hy; simp [allSome] at h; subst h; cases hy
  | cons a l ih =>
    intro r h y hy
    simp only [allSome] at h
    split at h
    · rename_i y' ys hfa hrest
      cases h
      rcases List.mem_cons.mp hy with rfl | hy'
      · exact ⟨a, List.mem_cons_self, hfa⟩
      · obtain ⟨x, hx, hfx⟩ := ih ys hrest y hy'
        exact ⟨x, List.mem_cons_of_mem _ hx, hfx⟩
    · cases h

theorem allSome_mem' {α β : Type} (f : α → Option β) :
    ∀ (l : List α) (r : List β), allSome f l = some r → ∀ x ∈ l, ∃ y ∈ r, f x = some y := by
  intro l
  induction l with
  | nil => intro r _ x hx; cases hx
  | cons a l ih =>
    intro r h x hx
    simp only [allSome] at h
    split at h
    · rename_i y' ys hfa hrest
      cases h
      rcases List.mem_cons.mp hx with rfl | hx'
      · exact ⟨y', List.mem_cons_self, hfa⟩
      · obtain ⟨y, hy, hfy⟩ := ih ys hrest x hx'
        exact ⟨y, List.mem_cons_of_mem _ hy, hfy⟩
    · cases h

/-- **C03 (MATCH, only-if).** An artifact is removed by MATCH only if the
referenced link exists and records, under the rule's prefix mapping, the same
relative path with an identical hash record. -/
theorem C03_match_only_if (links : Dict Str LinkArts) (item : LinkArts) (arts : Artifacts)
    (q q' : List Str) (pattern sp dp : Str) (dt : DestType) (dn : Str)
    (h : applyRule gm links item arts q (.match_ pattern sp dp dt dn) = .ok q')
    (p : Str) (hp : p ∈ q) (hgone : p ∉ q') :
    ∃ dl, links.get? dn = some dl ∧
      ∃ rel, rel ∈ stripPrefix sp q ∧ gm pattern rel = true ∧ p = rejoin sp rel ∧
        ∃ sa da, arts.get? p = some sa ∧ (dl.get dt).get? (rejoin dp rel) = some da ∧
          hashEq sa da = true := by
  simp only [applyRule] at h
  split at h
  · cases h
  · rename_i consumed hc
    cases h
    have hin : consumed.contains p = true := by
      cases hcon : consumed.contains p with
      | true => rfl
      | false => exact absurd (List.mem_filter.mpr ⟨hp, by rw [hcon]; rfl⟩) hgone
    rw [List.contains_iff_mem] at hin
    unfold verifyMatchRule at hc
    split at hc
    · cases hc; cases hin
    · rename_i dl hdl
      refine ⟨dl, hdl, ?_⟩
      simp only at hc
      split at hc
      · cases hc
      · rename_i rs hrs
        cases hc
        have : some p ∈ rs := by
          simpa [List.mem_filterMap] using hin
        obtain ⟨rel, hrel, hone⟩ := allSome_mem _ _ _ hrs _ this
        rw [List.mem_filter] at hrel
        refine ⟨rel, hrel.1, hrel.2, ?_⟩
        unfold matchOne at hone
        split at hone
        · cases hone
        · rename_i sa hsa
          split at hone
          · cases hone
          · rename_i da hda
            split at hone
            · rename_i heq
              cases hone
              exact ⟨rfl, sa, da, hsa, hda, heq⟩
            · cases hone

/-- **C03 (MATCH, if).** Conversely, when the rule does not raise, every queue
entry whose stripped path matches and whose re-joined source path has an
identical record under the destination mapping is removed. -/
theorem C03_match_if (links : Dict Str LinkArts) (item : LinkArts) (arts : Artifacts)
    (q q' : List Str) (pattern sp dp : Str) (dt : DestType) (dn : Str)
    (h : applyRule gm links item arts q (.match_ pattern sp dp dt dn) = .ok q')
    (dl : LinkArts) (hdl : links.get? dn = some dl)
    (rel : Str) (hrel : rel ∈ stripPrefix sp q) (hgm : gm pattern rel = true)
    (sa da : HashRec) (hsa : arts.get? (rejoin sp rel) = some sa)
    (hda : (dl.get dt).get? (rejoin dp rel) = some da) (heq : hashEq sa da = true) :
    rejoin sp rel ∉ q' := by
  simp only [applyRule] at h
  split at h
  · cases h
  · rename_i consumed hc
    cases h
    unfold verifyMatchRule at hc
    rw [hdl] at hc
    simp only at hc
    split at hc
    · cases hc
    · rename_i rs hrs
      cases hc
      have hmem : rel ∈ (stripPrefix sp q).filter (gm pattern) := List.mem_filter.mpr ⟨hrel, hgm⟩
      obtain ⟨y, hy, hone⟩ := allSome_mem' _ _ _ hrs rel hmem
      have : y = some (rejoin sp rel) := by
        simp [matchOne, hsa, hda, heq] at hone
        exact hone.symm
      subst this
      intro hin
      rw [List.mem_filter] at hin
      have : (rs.filterMap id).contains (rejoin sp rel) = true := by
        rw [List.contains_iff_mem, List.mem_filterMap]
        exact ⟨_, hy, rfl⟩
      simp at hin
      exact hin.2 hy

/-- **C03 (MATCH, referenced link missing).** Nothing is removed and the rule passes. -/
theorem C03_match_missing_link (links : Dict Str LinkArts) (item : LinkArts) (arts : Artifacts)
    (q : List Str) (pattern sp dp : Str) (dt : DestType) (dn : Str)
    (h : links.get? dn = none) :
    applyRule gm links item arts q (.match_ pattern sp dp dt dn) = .ok q := by
  simp [applyRule, verifyMatchRule, h]

/-- No rule ever adds to the queue. -/
theorem applyRule_subset (links : Dict Str LinkArts) (item : LinkArts) (arts : Artifacts)
    (q q' : List Str) (rd : RuleData) (h : applyRule gm links item arts q rd = .ok q') :
    ∀ p, p ∈ q' → p ∈ q := by
  intro p hp
  cases rd with
  | match_ pattern sp dp dt dn =>
    simp only [applyRule] at h
    split at h
    · cases h
    · cases h; exact (List.mem_filter.mp hp).1
  | generic g pat =>
    cases g <;> simp only [applyRule] at h
    all_goals first
      | (cases h; exact (List.mem_filter.mp hp).1)
      | (split at h <;> cases h; exact hp)

/-! ## Rule sequences -/

/-- The queue states a passing rule list goes through. -/
inductive Run (links : Dict Str LinkArts) (item : LinkArts) (arts : Artifacts) :
    List (List Str) → List Str → List Str → Prop where
  | nil (q : List Str) : Run links item arts [] q q
  | cons (rule : List Str) (rest : List (List Str)) (rd : RuleData) (q q' qf : List Str) :
      unpackStrs rule = .ok rd → applyRule gm links item arts q rd = .ok q' →
      Run links item arts rest q' qf → Run links item arts (rule :: rest) q qf

/-- **C03 (sequence, pass).** The rule list passes with final queue `qf` iff
every rule parses and passes on the queue left by its predecessors. -/
theorem C03_sequence_pass (links : Dict Str LinkArts) (item : LinkArts) (arts : Artifacts)
    (rules : List (List Str)) (q qf : List Str) :
    applyRules gm links item arts rules q = .ok qf ↔ Run gm links item arts rules q qf := by
  induction rules generalizing q with
  | nil =>
    simp only [applyRules]
    constructor
    · intro h; cases h; exact .nil _
    · intro h; cases h; rfl
  | cons rule rest ih =>
    simp only [applyRules]
    constructor
    · intro h
      split at h
      · cases h
      · rename_i rd hrd
        split at h
        · cases h
        · rename_i q' hq'
          exact .cons _ _ rd _ q' _ hrd hq' ((ih q').mp h)
    · intro h
      cases h with
      | cons _ _ rd _ q' _ hrd hq' hrest =>
        simp only [hrd, hq']
        exact (ih q').mpr hrest

/-- **C03 (sequence, fail).** The rule list fails with error `e` iff there is a
first rule that — on the queue left by its (passing) predecessors — is malformed
or fails with `e`. In particular verification passes the rules iff no rule fails. -/
theorem C03_sequence_fail (links : Dict Str LinkArts) (item : LinkArts) (arts : Artifacts)
    (rules : List (List Str)) (q : List Str) (e : Err) :
    applyRules gm links item arts rules q = .error e ↔
      ∃ pre rule post q', rules = pre ++ rule :: post ∧ Run gm links item arts pre q q' ∧
        (unpackStrs rule = .error e ∨
          ∃ rd, unpackStrs rule = .ok rd ∧ applyRule gm links item arts q' rd = .error e) := by
  induction rules generalizing q with
  | nil =>
    simp only [applyRules]
    constructor
    · intro h; cases h
    · rintro ⟨pre, rule, post, q', h, _⟩
      cases pre <;> cases h
  | cons rule rest ih =>
    simp only [applyRules]
    constructor
    · intro h
      split at h
      · rename_i e' he'
        cases h
        exact ⟨[], rule, rest, q, rfl, .nil _, .inl he'⟩
      · rename_i rd hrd
        split at h
        · rename_i e' he'
          cases h
          exact ⟨[], rule, rest, q, rfl, .nil _, .inr ⟨rd, hrd, he'⟩⟩
        · rename_i q1 hq1
          obtain ⟨pre, r, post, q', hsplit, hrun, hfail⟩ := (ih q1).mp h
          exact ⟨rule :: pre, r, post, q', by simp [hsplit], .cons _ _ rd _ q1 _ hrd hq1 hrun, hfail⟩
    · rintro ⟨pre, r, post, q', hsplit, hrun, hfail⟩
      cases pre with
      | nil =>
        simp only [List.nil_append, List.cons.injEq] at hsplit
        obtain ⟨rfl, rfl⟩ := hsplit
        cases hrun
        rcases hfail with he | ⟨rd, hrd, he⟩
        · simp [he]
        · simp [hrd, he]
      | cons r0 pre =>
        simp only [List.cons_append, List.cons.injEq] at hsplit
        obtain ⟨rfl, rfl⟩ := hsplit
        cases hrun with
        | cons _ _ rd _ q1 _ hrd hq1 hrest =>
          simp only [hrd, hq1]
          exact (ih q1).mpr ⟨pre, r, post, q', rfl, hrest, hfail⟩

/-- The final queue of a passing rule list is a sub-multiset of the initial one:
rules only ever remove artifacts. -/
theorem C03_queue_shrinks (links : Dict Str LinkArts) (item : LinkArts) (arts : Artifacts)
    (rules : List (List Str)) (q qf : List Str)
    (h : applyRules gm links item arts rules q = .ok qf) : ∀ p, p ∈ qf → p ∈ q := by
  rw [C03_sequence_pass] at h
  induction h with
  | nil => intro p hp; exact hp
  | cons _ _ rd _ q' _ _ hq' _ ih =>
    intro p hp
    exact applyRule_subset gm _ _ _ _ _ rd hq' p (ih p hp)

/-- **C03 (both lists for every item).** `verify_all_item_rules` passes iff for
every item both its material rules and its product rules pass. -/
theorem C03_all_items (links : Dict Str LinkArts) (items : List RuleItem) :
    verifyAllItemRules gm links items = .ok () ↔
      ∀ it ∈ items,
        (∃ qm, verifyItemRules gm it.name .materials it.expectedMaterials links = .ok qm) ∧
        (∃ qp, verifyItemRules gm it.name .products it.expectedProducts links = .ok qp) := by
  induction items with
  | nil => simp [verifyAllItemRules]
  | cons it rest ih =>
    simp only [verifyAllItemRules, List.mem_cons, forall_eq_or_imp]
    constructor
    · intro h
      split at h
      · cases h
      · rename_i qm hm
        split at h
        · cases h
        · rename_i qp hp
          exact ⟨⟨⟨qm, hm⟩, ⟨qp, hp⟩⟩, ih.mp h⟩
    · rintro ⟨⟨⟨qm, hm⟩, ⟨qp, hp⟩⟩, hrest⟩
      simp only [hm, hp]
      exact ih.mpr hrest

/-! ## Non-vacuity -/

private def exItem : LinkArts :=
  { materials := [(lit "a", [(lit "sha256", lit "11")]), (lit "b", [(lit "sha256", lit "22")])],
    products := [(lit "a", [(lit "sha256", lit "11")]), (lit "b", [(lit "sha256", lit "33")]),
                 (lit "c", [(lit "sha256", lit "44")])] }

example :
    verifyItemRules Glob.fnmatch (lit "s") .products
      [[lit "CREATE", lit "*"], [lit "modify", lit "b"], [lit "REQUIRE", lit "a"], [lit "DISALLOW", lit "[!a]"]]
      [(lit "s", exItem)] = .ok [lit "a"] := by decide

example :
    verifyItemRules Glob.fnmatch (lit "s") .products
      [[lit "MATCH", lit "*", lit "WITH", lit "MATERIALS", lit "FROM", lit "s"], [lit "DISALLOW", lit "*"]]
      [(lit "s", exItem)] = .error .rule := by decide

end InToto
