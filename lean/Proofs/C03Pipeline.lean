import Proofs.Sound
/-!
# C03 at pipeline level: which links the rules are evaluated against

The rules of every inspection are evaluated against one dictionary that holds
the link of **every** step and of **every** inspection of the layout — whatever
the position of the referenced item (before, after, itself) — and the link of
an inspection is what its command recorded. (For steps this is part of
`Accepted`: the dictionary `used` holds every step's link.)
-/
namespace InToto

variable (gm : Str → Str → Bool) (w : World)

/-! ## `dict.update` -/

theorem Dict.get?_update {α : Type} : ∀ (e d : Dict Str α) (k : Str),
    Dict.get? (Dict.update d e) k = if k ∈ e.map (·.1) then Dict.get? (Dict.update d e) k else Dict.get? d k := by
  intro e d k
  split
  · rfl
  · rename_i hk
    unfold Dict.update
    induction e generalizing d with
    | nil => rfl
    | cons p r ih =>
      simp only [List.map_cons, List.mem_cons, not_or] at hk
      simp only [List.foldl_cons]
      rw [ih _ hk.2]
      exact Dict.get?_insert_of_ne _ _ _ _ hk.1

theorem Dict.get?_update_of_mem {α : Type} : ∀ (e d : Dict Str α) (k : Str) (v : α),
    (e.map (·.1)).Nodup → (k, v) ∈ e → Dict.get? (Dict.update d e) k = some v := by
  intro e
  induction e with
  | nil => intro d k v _ h; cases h
  | cons p r ih =>
    intro d k v hn h
    simp only [List.map_cons, List.nodup_cons] at hn
    unfold Dict.update
    simp only [List.foldl_cons]
    rcases List.mem_cons.mp h with h | h
    · subst h
      have := Dict.get?_update r (Dict.insert d k v) k
      unfold Dict.update at this
      rw [this]
      simp only [hn.1, if_false]
      exact Dict.get?_insert_self _ _ _
    · exact ih _ k v hn.2 h

/-! ## What the inspection stage leaves in the dictionary -/

/-- The link an inspection contributes: what its command recorded, under its name. -/
def InspLink (i : Inspection) (name : Str) (lk : Link) : Prop :=
  i.name = some name ∧ ∃ cmd m p, strsOf i.run = some cmd ∧ w.insp cmd = some (.exit 0 m p) ∧
    lk = { name := some name, materials := m, products := p, byproducts := [], command := i.run, environment := [] }

theorem runAllInspections_links : ∀ (insps : List Inspection) (acc res : Dict Str Link) (tr : List (List Str)),
    runAllInspections w insps acc = (.ok res, tr) →
    ((acc.map (·.1)).Nodup → (res.map (·.1)).Nodup) ∧
    (∀ q ∈ acc, (∀ i ∈ insps, i.name ≠ some q.1) → q ∈ res) ∧
    ((insps.map (·.name)).Nodup → ∀ i ∈ insps, ∃ name lk, InspLink w i name lk ∧ (name, lk) ∈ res) := by
  intro insps
  induction insps with
  | nil =>
    intro acc res tr h
    simp only [runAllInspections] at h
    cases h
    exact ⟨id, fun q hq _ => hq, fun _ i hi => by cases hi⟩
  | cons i rest ih =>
    intro acc res tr h
    simp only [runAllInspections] at h
    split at h
    · cases h
    · rename_i name hname
      split at h
      · cases h
      · split at h
        · cases h
        · rename_i cmd hcmd
          split at h
          · cases h
          · cases h
          · cases h
          · rename_i code m p hout
            split at h
            · cases h
            · rename_i hcode
              have hc : code = 0 := by
                by_cases e : code = 0
                · exact e
                · exact absurd e hcode
              subst hc
              cases hr : runAllInspections w rest (Dict.insert acc name
                  { name := some name, materials := m, products := p, byproducts := [], command := i.run,
                    environment := [] }) with
              | mk r' tr' =>
                rw [hr] at h
                simp only at h
                cases h
                obtain ⟨h0, h1, h2⟩ := ih _ _ _ hr
                refine ⟨fun hn => h0 (Dict.nodup_insert _ _ _ hn), ?_, ?_⟩
                · intro q hq hno
                  apply h1 q
                  · apply Dict.mem_insert_of_ne _ _ _ _ hq
                    intro e
                    exact hno i List.mem_cons_self (e ▸ hname)
                  · intro j hj
                    exact hno j (List.mem_cons_of_mem _ hj)
                · intro hn j hj
                  simp only [List.map_cons, List.nodup_cons] at hn
                  rcases List.mem_cons.mp hj with rfl | hj
                  · refine ⟨name, _, ⟨hname, cmd, m, p, hcmd, hout, rfl⟩, ?_⟩
                    apply h1 _ (Dict.mem_insert_self _ _ _)
                    intro j' hj' e
                    exact hn.1 (hname ▸ e ▸ List.mem_map_of_mem (f := (·.name)) hj')
                  · exact h2 hn.2 j hj

/-- Every entry of the result stems from the start dictionary or carries the name of an inspection. -/
theorem runAllInspections_keys : ∀ (insps : List Inspection) (acc res : Dict Str Link) (tr : List (List Str)),
    runAllInspections w insps acc = (.ok res, tr) → ∀ q ∈ res, q ∈ acc ∨ ∃ i ∈ insps, i.name = some q.1 := by
  intro insps
  induction insps with
  | nil =>
    intro acc res tr h q hq
    simp only [runAllInspections] at h
    cases h
    exact .inl hq
  | cons i rest ih =>
    intro acc res tr h q hq
    simp only [runAllInspections] at h
    split at h
    · cases h
    · rename_i name hname
      split at h
      · cases h
      · split at h
        · cases h
        · split at h
          · cases h
          · cases h
          · cases h
          · rename_i code m p hout
            split at h
            · cases h
            · cases hr : runAllInspections w rest (Dict.insert acc name
                  { name := some name, materials := m, products := p, byproducts := [], command := i.run,
                    environment := [] }) with
              | mk r' tr' =>
                rw [hr] at h
                simp only at h
                cases h
                rcases ih _ _ _ hr q hq with h' | ⟨j, hj, hn⟩
                · rcases Dict.mem_insert _ _ _ _ h' with h' | h'
                  · subst h'
                    exact .inr ⟨i, List.mem_cons_self, hname⟩
                  · exact .inl h'
                · exact .inr ⟨j, List.mem_cons_of_mem _ hj, hn⟩

/-! ## Names of steps and inspections are pairwise distinct -/

def Metadata.AllNamesDistinct (md : Metadata) : Prop :=
  ∀ l0, md.getPayload = .ok (.layout l0) → (l0.steps.map (·.name) ++ l0.inspect.map (·.name)).Nodup

theorem readPayload_allnames {bad : Err} {data : JVal} {l : Layout} (h : readPayload bad data = .ok (.layout l)) :
    (l.steps.map (·.name) ++ l.inspect.map (·.name)).Nodup := by
  unfold readPayload at h
  simp only at h
  split at h
  · cases h
  · rename_i p hp
    split at h
    · cases h
      split at hp
      · split at hp
        · cases hr : readLink data with
          | error e => simp [hr, Except.map] at hp
          | ok lk => simp [hr, Except.map] at hp
        · split at hp
          · cases hr : readLayout data with
            | error e => simp [hr, Except.map] at hp
            | ok l' =>
              simp only [hr, Except.map, Except.ok.injEq, Payload.layout.injEq] at hp
              subst hp
              exact namesDistinct_nodup _ (readLayout_names hr)
          · cases hp
      · cases hp
    · cases h

theorem fromDict_allnames {data : JVal} {aux : Option EnvAux} {md : Metadata}
    (h : Metadata.fromDict data aux = .ok md) : md.AllNamesDistinct := by
  intro l0 hp
  cases md with
  | envelope sigs text parsed =>
    simp only [Metadata.getPayload] at hp
    split at hp
    · exact readPayload_allnames hp
    · cases hp
  | metablock sigs signed =>
    simp only [Metadata.getPayload, Except.ok.injEq] at hp
    subst hp
    unfold Metadata.fromDict at h
    split at h
    · split at h
      · split at h
        · split at h
          · cases h
          · cases h
        · cases h
      · split at h
        · simp only [bind, Except.bind, pure, Except.pure] at h
          split at h
          · cases h
          · split at h
            · cases h
            · rename_i signed' hs
              split at h
              · cases h
              · cases h
                exact readPayload_allnames hs
        · cases h
    · cases h

theorem substList_names' {α : Type} (nm : α → Option Str) (f : α → Except Err α)
    (hf : ∀ s s', f s = .ok s' → nm s' = nm s) : ∀ (l : List α), ((substList f l).1).map nm = l.map nm
  | [] => rfl
  | x :: r => by
    simp only [substList]
    split
    · rfl
    · rename_i y hy
      simp only [List.map_cons, hf x y hy, substList_names' nm f hf r]

theorem substInspection_name (params : Dict Str Str) (s s' : Inspection) (h : substInspection params s = .ok s') :
    s'.name = s.name := by
  unfold substInspection at h
  split at h
  · cases h
  · split at h
    · cases h
    · split at h
      · cases h
      · cases h
        rfl

theorem substituteParameters_inspnames (raw : List (Str × Option Str)) (l : Layout) :
    (substituteParameters raw l).1.inspect.map (·.name) = l.inspect.map (·.name) := by
  unfold substituteParameters
  split
  · rfl
  · rename_i params _
    split
    · rfl
    · have := substList_names' (·.name) (substInspection params) (substInspection_name params) l.inspect
      cases hs : substList (substInspection params) l.inspect with
      | mk insp e =>
        rw [hs] at this
        exact this

theorem gate_allnames {md : Metadata} {keys : List (Str × JVal)} {params : Option (List (Str × Option Str))}
    {layout : Layout} (h : gate w md keys params = .ok layout) (hd : md.AllNamesDistinct) :
    (layout.steps.map (·.name) ++ layout.inspect.map (·.name)).Nodup := by
  obtain ⟨_, l0, hp, _, hsub⟩ := gate_ok_inv w h
  have h0 := hd l0 hp
  unfold substIfAny at hsub
  split at hsub
  · cases hsub
    exact h0
  · rename_i raw
    split at hsub
    · cases hsub
    · rename_i l' heq
      cases hsub
      have h1 := substituteParameters_names raw l0
      have h2 := substituteParameters_inspnames raw l0
      rw [heq] at h1 h2
      simp only at h1 h2
      rw [h1, h2]
      exact h0

/-! ## The theorem -/

/-- **C03 (the rules of an inspection are evaluated against the links of all
steps and all inspections).** In an accepted verification the rule lists of the
inspections were evaluated (`checkInspections`) against the dictionary
`reduced.update(inspection links)`, in which **every** inspection of the layout
— listed before or after the one whose rules are being evaluated — has the link
its command recorded, and every step still has the link used for it. -/
theorem C03_inspection_rules_see_all {fuel : Nat} {md : Metadata} {keys : List (Str × JVal)} {dir : Str}
    {params : Option (List (Str × Option Str))} {stepName : Str} {s : Link} (hd : md.AllNamesDistinct)
    (h : (verify gm w (fuel + 1) md keys dir params stepName).result = .ok s) :
    ∃ st : Stages gm w fuel md keys dir params stepName s,
      checkInspections gm st.layout st.reduced st.inspLinks = .ok () ∧
      (∀ i ∈ st.layout.inspect, ∃ name lk, InspLink w i name lk ∧
        Dict.get? (Dict.update st.reduced st.inspLinks) name = some lk) ∧
      (∀ step ∈ st.layout.steps, ∀ name, step.name = some name →
        Dict.get? (Dict.update st.reduced st.inspLinks) name = Dict.get? st.reduced name) := by
  obtain ⟨st⟩ := verify_ok_inv gm w h
  have hall := gate_allnames w st.hgate hd
  obtain ⟨hsteps, hinsps, hdisj⟩ := List.nodup_append.mp hall
  obtain ⟨hnd, _, hlinks⟩ := runAllInspections_links w _ _ _ _ st.hinsp
  have hkeys := runAllInspections_keys w _ _ _ _ st.hinsp
  refine ⟨st, st.hirules, ?_, ?_⟩
  · intro i hi
    obtain ⟨name, lk, hil, hmem⟩ := hlinks hinsps i hi
    exact ⟨name, lk, hil, Dict.get?_update_of_mem _ _ _ _ (hnd List.nodup_nil) hmem⟩
  · intro step hstep name hname
    rw [Dict.get?_update]
    split
    · rename_i hk
      obtain ⟨q, hq, hq1⟩ := List.mem_map.mp hk
      rcases hkeys q hq with h' | ⟨i, hi, hin⟩
      · cases h'
      · exfalso
        have h1 : some name ∈ st.layout.steps.map (·.name) := List.mem_map.mpr ⟨step, hstep, hname⟩
        have h2 : some name ∈ st.layout.inspect.map (·.name) := List.mem_map.mpr ⟨i, hi, by rw [hin, hq1]⟩
        exact hdisj _ h1 _ h2 rfl
    · rfl

end InToto
