import Proofs.C13
/-!
# C13 — non-vacuity, and regression witnesses for the loop as it was before the repair

`runStreamsOld` models the unrepaired loop (text-mode readers that finalise the
decoder whenever a read reaches the temporary end of the capture file, and one
bounded read after the child has exited). The three `decide`-checked schedules
below are the concrete failures of defect D5; the repaired loop is exact on the
same schedules.
-/
namespace InToto

/-! ## A decoder that satisfies the chunking hypothesis (non-vacuity of `C13_exact`) -/

def latin1Decoder : IncDecoder Unit where
  init := ()
  feed := fun _ bytes _ => some ((), bytes.map Char.ofNat)

theorem latin1_chunkIndependent : ChunkIndependent latin1Decoder := by
  intro st st2 a b fin t h
  simp only [latin1Decoder, Option.some.injEq, Prod.mk.injEq] at h
  exact ⟨(), a.map Char.ofNat, b.map Char.ofNat, rfl, rfl, by rw [← h.2, List.map_append]⟩

example :
    runStreamsFrom latin1Decoder 4 (some 10)
      [{ outW := [104, 105, 13], errW := [], status := none, clock := 1 },
       { outW := [10, 33], errW := [101], status := some 7, clock := 2 }]
      = .returned 7 (lit "hi\n!") (lit "e") := by decide

/-! ## The unrepaired loop -/

/-- A text-mode `read(N)`: when the read reaches the end of the file the decoder
is finalised (a held-back CR is flushed, an incomplete character is an error)
and starts afresh. -/
def Capture.readOld {σ : Type} (D : IncDecoder σ) (N : Nat) (c : Capture σ) (file : List Nat) : Option (Capture σ) :=
  let chunk := (file.drop c.pos).take N
  let eof : Bool := chunk.length < N
  match D.feed c.dstate chunk false with
  | none => none
  | some (ds, t) =>
    let r1 := nlFeed c.pendingCR t false
    if eof then
      match D.feed ds [] true with
      | none => none
      | some (_, t2) =>
        some { dstate := D.init, pendingCR := false, pos := c.pos + chunk.length,
               text := c.text ++ r1.2 ++ (nlFeed r1.1 t2 true).2 }
    else some { dstate := ds, pendingCR := r1.1, pos := c.pos + chunk.length, text := c.text ++ r1.2 }

def runStreamsOld {σ : Type} (D : IncDecoder σ) (N : Nat) :
    List PollEvent → List Nat → List Nat → Capture σ → Capture σ → StreamOutcome
  | [], _, _, _, _ => .stillRunning
  | ev :: rest, outF, errF, co, ce =>
    let outF := outF ++ ev.outW
    let errF := errF ++ ev.errW
    match co.readOld D N outF, ce.readOld D N errF with
    | some co', some ce' =>
      match ev.status with
      | some code => .returned code co'.text ce'.text
      | none => runStreamsOld D N rest outF errF co' ce'
    | _, _ => .decodeError

def oldFrom (N : Nat) (sched : List PollEvent) : StreamOutcome :=
  runStreamsOld utf8Decoder N sched [] [] (Capture.init utf8Decoder) (Capture.init utf8Decoder)

/-- Output written shortly before exit is truncated to one read. -/
theorem old_loop_loses_output :
    oldFrom 4 [{ outW := [97, 98, 99, 100, 101, 102], errW := [], status := some 0, clock := 0 }]
      = .returned 0 (lit "abcd") [] ∧
    runStreamsFrom utf8Decoder 4 none
      [{ outW := [97, 98, 99, 100, 101, 102], errW := [], status := some 0, clock := 0 }]
      = .returned 0 (lit "abcdef") [] := by decide

/-- A poll that falls inside a multi-byte character raises `UnicodeDecodeError`. -/
theorem old_loop_splits_char :
    oldFrom 8 [{ outW := [0xC3], errW := [], status := none, clock := 0 },
               { outW := [0xA9], errW := [], status := some 0, clock := 0 }] = .decodeError ∧
    runStreamsFrom utf8Decoder 8 none
      [{ outW := [0xC3], errW := [], status := none, clock := 0 },
       { outW := [0xA9], errW := [], status := some 0, clock := 0 }] = .returned 0 (lit "é") [] := by decide

/-- CR at one poll and LF at the next are recorded as two newlines. -/
theorem old_loop_doubles_newline :
    oldFrom 8 [{ outW := [120, 13], errW := [], status := none, clock := 0 },
               { outW := [10, 121], errW := [], status := some 0, clock := 0 }] = .returned 0 (lit "x\n\ny") [] ∧
    runStreamsFrom utf8Decoder 8 none
      [{ outW := [120, 13], errW := [], status := none, clock := 0 },
       { outW := [10, 121], errW := [], status := some 0, clock := 0 }] = .returned 0 (lit "x\ny") [] := by decide

end InToto
