import Proofs.C01
/-!
# C02 — each step needs a threshold of distinct, authorised, validly signed links
# C08 — a link counts only for the step it names

Theorems about `verifyLinkSignatureThresholds` and its place in `verify`.
-/
namespace InToto

variable (gm : Str → Str → Bool) (w : World)

/-! ## Helper facts -/

theorem mem_dedup {α : Type} [DecidableEq α] (l : List α) (a : α) : a ∈ dedup l ↔ a ∈ l := by
  induction l with
  | nil => simp [dedup]
  | cons b r ih =>
    simp only [dedup]
    split
    · rename_i hc
      rw [List.contains_iff_mem] at hc
      rw [ih, List.mem_cons]
      constructor
      · exact .inr
      · rintro (rfl | h)
        · exact hc
        · exact h
    · simp [ih]

theorem nodup_dedup {α : Type} [DecidableEq α] (l : List α) : (dedup l).Nodup := by
  induction l with
  | nil => simp [dedup]
  | cons b r ih =>
    simp only [dedup]
    split
    · exact ih
    · rename_i hc
      rw [List.contains_iff_mem] at hc
      rw [List.nodup_cons]
      exact ⟨fun h => hc ((mem_dedup r b).mp h), ih⟩

theorem Dict.mem_insert {α : Type} (d : Dict Str α) (k : Str) (v : α) (p : Str × α)
    (h : p ∈ Dict.insert d k v) : p = (k, v) ∨ p ∈ d := by
  induction d with
  | nil => simp [Dict.insert] at h; exact .inl h
  | cons x r ih =>
    simp only [Dict.insert] at h
    split at h
    · rcases List.mem_cons.mp h with h | h
      · exact .inl h
      · exact .inr (List.mem_cons_of_mem _ h)
    · rcases List.mem_cons.mp h with h | h
      · exact .inr (h ▸ List.mem_cons_self)
      · rcases ih h with h | h
        · exact .inl h
        · exact .inr (List.mem_cons_of_mem _ h)

/-! ## Who is authorised -/

/-- The documented authorisation relation: link file key id `kid` is accepted for
a step authorising `pubkeys`, to be verified with key dictionary `vkey`, counting
for main key id `mainId`, when for some authorised id `a`
* `a` is a key of the layout's key store and `kid = a` (the key itself), or
* `a` is a subkey of a key `m` of the store and `kid = a`: then **only that
  subkey's dictionary** verifies, and it counts for `m`, or
* `a` is a key of the store and `kid` is one of its subkeys: the whole bundle
  verifies and it counts for `a`. -/
inductive Authorised (keys : List (Str × JVal)) (subMap : Dict Str JVal) (kid : Str) (pubkeys : List Str) :
    JVal → Str → Prop where
  | self (a : Str) (k : JVal) (i : Str) : a ∈ pubkeys → Dict.get? keys a = some k → kid = a →
      keyidOf k = .ok i → Authorised keys subMap kid pubkeys k i
  | subkeyOnly (a : Str) (m sk : JVal) (i : Str) : a ∈ pubkeys → Dict.get? subMap a = some m → kid = a →
      (m.getKey? (lit "subkeys")).bind (·.getKey? a) = some sk → keyidOf m = .ok i →
      Authorised keys subMap kid pubkeys sk i
  | viaMaster (a : Str) (k : JVal) (i : Str) : a ∈ pubkeys → Dict.get? keys a = some k →
      (subkeyIds (some k)).contains kid = true → keyidOf k = .ok i →
      Authorised keys subMap kid pubkeys k i

theorem authorise_sound (keys : List (Str × JVal)) (subMap : Dict Str JVal) (kid : Str) :
    ∀ (pubkeys : List Str) (vkey : JVal) (mainId : Str),
      authorise keys subMap kid pubkeys = .ok (some (vkey, mainId)) →
      Authorised keys subMap kid pubkeys vkey mainId := by
  intro pubkeys
  induction pubkeys with
  | nil => intro vkey mainId h; simp [authorise] at h
  | cons a rest ih =>
    intro vkey mainId h
    have lift : ∀ {v i}, Authorised keys subMap kid rest v i → Authorised keys subMap kid (a :: rest) v i := by
      intro v i hA
      cases hA with
      | self a' _ _ ha hk he hi => exact .self a' _ _ (List.mem_cons_of_mem _ ha) hk he hi
      | subkeyOnly a' m _ _ ha hm he hs hi => exact .subkeyOnly a' m _ _ (List.mem_cons_of_mem _ ha) hm he hs hi
      | viaMaster a' _ _ ha hk hc hi => exact .viaMaster a' _ _ (List.mem_cons_of_mem _ ha) hk hc hi
    simp only [authorise] at h
    split at h
    · rename_i k hk
      -- the signing key is authorised itself
      by_cases hka : kid = a
      · simp only [hka, if_true] at hk
        cases hi : keyidOf k with
        | error e => simp [hi, Except.map] at h
        | ok i =>
          simp only [hi, Except.map] at h
          cases h
          exact .self a _ _ List.mem_cons_self hk hka hi
      · simp [hka] at hk
    · split at h
      · rename_i m hm
        by_cases hka : kid = a
        · simp only [hka, if_true] at hm
          split at h
          · rename_i sk hsk
            cases hi : keyidOf m with
            | error e => simp [hi, Except.map] at h
            | ok i =>
              simp only [hi, Except.map] at h
              cases h
              exact .subkeyOnly a m _ _ List.mem_cons_self hm hka hsk hi
          · cases h
        · simp [hka] at hm
      · split at h
        · rename_i k hk
          split at h
          · rename_i hc
            cases hi : keyidOf k with
            | error e => simp [hi, Except.map] at h
            | ok i =>
              simp only [hi, Except.map] at h
              cases h
              exact .viaMaster a _ _ List.mem_cons_self hk hc hi
          · exact lift (ih _ _ h)
        · exact lift (ih _ _ h)

/-! ## What the threshold stage retains -/

/-- A retained link: authorised, signature check passed with the key the
authorisation rule selected, payload readable, and — if it is a link — recorded
under the name of the step it is presented for (C08). -/
def GoodLink (l : Layout) (subMap : Dict Str JVal) (step : Step) (stepName kid : Str) (md : Metadata)
    (mainId : Str) : Prop :=
  ∃ vkey, Authorised l.keys subMap kid step.pubkeys vkey mainId ∧
    md.verifySignature w.S w.nowSec vkey = .ok ∧
    ∃ payload, md.getPayload = .ok payload ∧ ∀ lk, payload = .link lk → lk.name = some stepName

theorem verifyStepLinks_inv (l : Layout) (subMap : Dict Str JVal) (step : Step) (stepName : Str) :
    ∀ (input : List (Str × Metadata)) (kept0 : Dict Str Metadata) (used0 : List Str)
      (kept : Dict Str Metadata) (used : List Str),
      verifyStepLinks w l subMap step stepName input kept0 used0 = .ok (kept, used) →
      (∀ p ∈ kept, p ∈ kept0 ∨ (p ∈ input ∧ ∃ d, d ∈ used ∧ GoodLink w l subMap step stepName p.1 p.2 d)) ∧
      (∀ d ∈ used, d ∈ used0 ∨ ∃ p ∈ input, GoodLink w l subMap step stepName p.1 p.2 d) ∧
      (∀ d ∈ used0, d ∈ used) := by
  intro input
  induction input with
  | nil =>
    intro kept0 used0 kept used h
    simp only [verifyStepLinks] at h
    cases h
    exact ⟨fun p hp => .inl hp, fun d hd => .inl hd, fun d hd => hd⟩
  | cons x rest ih =>
    intro kept0 used0 kept used h
    obtain ⟨linkKeyid, md⟩ := x
    -- skipping the current entry
    have skip : verifyStepLinks w l subMap step stepName rest kept0 used0 = .ok (kept, used) →
        (∀ p ∈ kept, p ∈ kept0 ∨ (p ∈ (linkKeyid, md) :: rest ∧ ∃ d, d ∈ used ∧ GoodLink w l subMap step stepName p.1 p.2 d)) ∧
        (∀ d ∈ used, d ∈ used0 ∨ ∃ p ∈ (linkKeyid, md) :: rest, GoodLink w l subMap step stepName p.1 p.2 d) ∧
        (∀ d ∈ used0, d ∈ used) := by
      intro h'
      obtain ⟨h1, h2, h3⟩ := ih _ _ _ _ h'
      refine ⟨fun p hp => ?_, fun d hd => ?_, h3⟩
      · rcases h1 p hp with h | ⟨hin, hg⟩
        · exact .inl h
        · exact .inr ⟨List.mem_cons_of_mem _ hin, hg⟩
      · rcases h2 d hd with h | ⟨p, hin, hg⟩
        · exact .inl h
        · exact .inr ⟨p, List.mem_cons_of_mem _ hin, hg⟩
    simp only [verifyStepLinks] at h
    split at h
    · cases h
    · exact skip h
    · rename_i vkey mainId hauth
      split at h
      · exact skip h
      · exact skip h
      · split at h
        · exact skip h
        · cases h
      · rename_i hsig
        split at h
        · cases h
        · rename_i payload hpay
          split at h
          · exact skip h
          · rename_i hname
            have hgood : GoodLink w l subMap step stepName linkKeyid md mainId := by
              refine ⟨vkey, authorise_sound _ _ _ _ _ _ hauth, hsig, payload, hpay, ?_⟩
              intro lk hlk
              subst hlk
              simpa [nameBound] using hname
            obtain ⟨h1, h2, h3⟩ := ih _ _ _ _ h
            refine ⟨fun p hp => ?_, fun d hd => ?_, fun d hd => h3 d (List.mem_append_left _ hd)⟩
            · rcases h1 p hp with h | ⟨hin, hg⟩
              · rcases Dict.mem_insert _ _ _ _ h with h | h
                · subst h
                  exact .inr ⟨List.mem_cons_self, mainId, h3 mainId (by simp), hgood⟩
                · exact .inl h
              · exact .inr ⟨List.mem_cons_of_mem _ hin, hg⟩
            · rcases h2 d hd with h | ⟨p, hin, hg⟩
              · rcases List.mem_append.mp h with h | h
                · exact .inl h
                · simp at h; subst h
                  exact .inr ⟨(linkKeyid, md), List.mem_cons_self, hgood⟩
              · exact .inr ⟨p, List.mem_cons_of_mem _ hin, hg⟩

/-- For every step the threshold stage found a duplicate-free list of at least
`threshold` main key ids, each backed by a good link among those loaded for
the step; and whatever it retains for a step is good. -/
theorem verifySigSteps_inv (l : Layout) (subMap : Dict Str JVal) (loaded : Dict Str (Dict Str Metadata)) :
    ∀ (steps : List Step) (acc res : Dict Str (Dict Str Metadata)),
      verifySigSteps w l subMap loaded steps acc = .ok res →
      (∀ step ∈ steps, ∃ name, nameOf step.name = .ok name ∧ ∃ ids : List Str, ids.Nodup ∧
          step.threshold ≤ (ids.length : Int) ∧
          ∀ d ∈ ids, ∃ p ∈ (Dict.get? loaded name).getD [], GoodLink w l subMap step name p.1 p.2 d) ∧
      (∀ nk ∈ res, nk ∈ acc ∨ ∃ step ∈ steps, nameOf step.name = .ok nk.1 ∧
          ∀ p ∈ nk.2, p ∈ (Dict.get? loaded nk.1).getD [] ∧ ∃ d, GoodLink w l subMap step nk.1 p.1 p.2 d) := by
  intro steps
  induction steps with
  | nil =>
    intro acc res h
    simp only [verifySigSteps] at h
    cases h
    refine ⟨?_, ?_⟩
    · intro s hs; cases hs
    · intro nk hnk; exact .inl hnk
  | cons step rest ih =>
    intro acc res h
    simp only [verifySigSteps] at h
    split at h
    · cases h
    · rename_i name hname
      split at h
      · cases h
      · rename_i kept used hstep
        split at h
        · cases h
        · rename_i hthr
          obtain ⟨h1, h2, _⟩ := verifyStepLinks_inv w l subMap step name _ _ _ _ _ hstep
          obtain ⟨ih1, ih2⟩ := ih _ _ h
          refine ⟨?_, ?_⟩
          · intro s hs
            rcases List.mem_cons.mp hs with rfl | hs
            · refine ⟨name, hname, dedup used, nodup_dedup _, by omega, ?_⟩
              intro d hd
              rcases h2 d ((mem_dedup _ _).mp hd) with h | h
              · cases h
              · exact h
            · exact ih1 s hs
          · intro nk hnk
            rcases ih2 nk hnk with h | ⟨s, hs, hn, hg⟩
            · rcases Dict.mem_insert _ _ _ _ h with h | h
              · subst h
                refine .inr ⟨step, List.mem_cons_self, hname, ?_⟩
                intro p hp
                rcases h1 p hp with h | ⟨hin, d, _, hg⟩
                · cases h
                · exact ⟨hin, d, hg⟩
              · exact .inl h
            · exact .inr ⟨s, List.mem_cons_of_mem _ hs, hn, hg⟩

/-- **C02 (counted links are sound).** If verification succeeds then for every
step of the evaluated layout there is a duplicate-free list of at least
`threshold` main key ids, each backed by a link file that was loaded for that
step, is authorised for it by the documented rule, passed the signature check
with exactly the key that rule selects, and names the step. -/
theorem C02_counted_sound {fuel : Nat} {md : Metadata} {keys : List (Str × JVal)} {dir : Str}
    {params : Option (List (Str × Option Str))} {stepName : Str} {s : Link}
    (h : (verify gm w fuel md keys dir params stepName).result = .ok s) :
    ∃ layout loaded, gate w md keys params = .ok layout ∧ loadLinksForLayout w layout dir = .ok loaded ∧
      ∀ step ∈ layout.steps, ∃ name, nameOf step.name = .ok name ∧ ∃ ids : List Str, ids.Nodup ∧
        step.threshold ≤ (ids.length : Int) ∧
        ∀ d ∈ ids, ∃ p ∈ (Dict.get? loaded name).getD [],
          GoodLink w layout (mainKeysForSubkeys layout.keys) step name p.1 p.2 d := by
  obtain ⟨n, rfl⟩ := verify_ok_fuel_pos gm w h
  obtain ⟨st⟩ := verify_ok_inv gm w h
  exact ⟨st.layout, st.loaded, st.hgate, st.hload,
    (verifySigSteps_inv w st.layout _ st.loaded _ _ _ st.hsig).1⟩

/-- **C02 (only good links reach later stages).** Everything the later stages
(sublayout verification, threshold constraints, rules, summary link) receive
from the threshold stage is a good link of its step: metadata that is unsigned,
altered, unauthorised, expired or of the wrong step is never among it. -/
theorem C02_retained_good {fuel : Nat} {md : Metadata} {keys : List (Str × JVal)} {dir : Str}
    {params : Option (List (Str × Option Str))} {stepName : Str} {s : Link}
    (h : (verify gm w (fuel + 1) md keys dir params stepName).result = .ok s) :
    ∃ st : Stages gm w fuel md keys dir params stepName s,
      ∀ nk ∈ st.stepsMd, ∃ step ∈ st.layout.steps, nameOf step.name = .ok nk.1 ∧
        ∀ p ∈ nk.2, p ∈ (Dict.get? st.loaded nk.1).getD [] ∧
          ∃ d, GoodLink w st.layout (mainKeysForSubkeys st.layout.keys) step nk.1 p.1 p.2 d := by
  obtain ⟨st⟩ := verify_ok_inv gm w h
  refine ⟨st, fun nk hnk => ?_⟩
  rcases (verifySigSteps_inv w st.layout _ st.loaded _ _ _ st.hsig).2 nk hnk with h | h
  · cases h
  · exact h

/-- **C08 (name binding).** A retained entry whose payload is a link names the
step it is presented for. -/
theorem C08_name_binding {l : Layout} {subMap : Dict Str JVal} {step : Step} {stepName kid : Str}
    {md : Metadata} {d : Str} (hg : GoodLink w l subMap step stepName kid md d)
    (lk : Link) (hp : md.getPayload = .ok (.link lk)) : lk.name = some stepName := by
  obtain ⟨_, _, _, payload, hpay, hname⟩ := hg
  rw [hp] at hpay
  cases hpay
  exact hname lk rfl

/-- **C02 (a bad signature never counts).** Whatever the file is called and
whoever is authorised: if the signature check with the selected key does not
succeed, the link is not good. -/
theorem C02_bad_signature_not_good {l : Layout} {subMap : Dict Str JVal} {step : Step} {stepName kid : Str}
    {md : Metadata} {d : Str}
    (hbad : ∀ vkey, Authorised l.keys subMap kid step.pubkeys vkey d →
      md.verifySignature w.S w.nowSec vkey ≠ .ok) :
    ¬ GoodLink w l subMap step stepName kid md d := by
  rintro ⟨vkey, hA, hs, _⟩
  exact hbad vkey hA hs

/-- **C02 (unauthorised key never counts).** -/
theorem C02_unauthorised_not_good {l : Layout} {subMap : Dict Str JVal} {step : Step} {stepName kid : Str}
    {md : Metadata} {d : Str}
    (hna : ∀ vkey, ¬ Authorised l.keys subMap kid step.pubkeys vkey d) :
    ¬ GoodLink w l subMap step stepName kid md d := by
  rintro ⟨vkey, hA, _⟩
  exact hna vkey hA

end InToto

namespace InToto

variable (w : World)

/-- The entries the threshold stage skips without any effect. -/
def SkippedLink (l : Layout) (subMap : Dict Str JVal) (step : Step) (p : Str × Metadata) : Bool :=
  match authorise l.keys subMap p.1 step.pubkeys with
  | .error _ => false
  | .ok none => true                                   -- key id not authorised for the step
  | .ok (some (vkey, _)) =>
    match p.2.verifySignature w.S w.nowSec vkey with
    | .bad => true                                     -- unsigned, altered, or signed by another key
    | .expired => true                                 -- signed by an expired key
    | .crash e => e = .format ∨ e = .keyError ∨ e = .value   -- signature of another key family, …
    | .ok => false

/-- **C02 (bad links are ignored, in both directions).** The threshold stage
gives exactly the same result — retained links, counted key ids, or error — on a
link directory and on the same directory without the links that are unsigned,
altered after signing, signed by an unauthorised or expired key, or carry a
signature of the other key family. They never count, and they never turn an
acceptable step into a rejected one. -/
theorem C02_ignore_bad_stage (l : Layout) (subMap : Dict Str JVal) (step : Step) (stepName : Str) :
    ∀ (input : List (Str × Metadata)) (kept : Dict Str Metadata) (used : List Str),
      verifyStepLinks w l subMap step stepName input kept used =
      verifyStepLinks w l subMap step stepName (input.filter (fun p => !SkippedLink w l subMap step p)) kept used := by
  intro input
  induction input with
  | nil => intro kept used; rfl
  | cons x rest ih =>
    intro kept used
    obtain ⟨kid, md⟩ := x
    simp only [List.filter_cons]
    cases hauth : authorise l.keys subMap kid step.pubkeys with
    | error e =>
      have hs : SkippedLink w l subMap step (kid, md) = false := by simp [SkippedLink, hauth]
      simp only [hs, Bool.not_false, if_true, verifyStepLinks, hauth]
    | ok r =>
      cases r with
      | none =>
        have hs : SkippedLink w l subMap step (kid, md) = true := by simp [SkippedLink, hauth]
        simp only [hs, Bool.not_true, Bool.false_eq_true, if_false]
        rw [← ih]
        simp only [verifyStepLinks, hauth]
      | some vm =>
        obtain ⟨vkey, mainId⟩ := vm
        cases hsig : md.verifySignature w.S w.nowSec vkey with
        | bad =>
          have hs : SkippedLink w l subMap step (kid, md) = true := by simp [SkippedLink, hauth, hsig]
          simp only [hs, Bool.not_true, Bool.false_eq_true, if_false]
          rw [← ih]
          simp only [verifyStepLinks, hauth, hsig]
        | expired =>
          have hs : SkippedLink w l subMap step (kid, md) = true := by simp [SkippedLink, hauth, hsig]
          simp only [hs, Bool.not_true, Bool.false_eq_true, if_false]
          rw [← ih]
          simp only [verifyStepLinks, hauth, hsig]
        | crash e =>
          by_cases he : e = .format ∨ e = .keyError ∨ e = .value
          · have hs : SkippedLink w l subMap step (kid, md) = true := by simp [SkippedLink, hauth, hsig, he]
            simp only [hs, Bool.not_true, Bool.false_eq_true, if_false]
            rw [← ih]
            simp only [verifyStepLinks, hauth, hsig, he, if_true]
          · have hs : SkippedLink w l subMap step (kid, md) = false := by simp [SkippedLink, hauth, hsig, he]
            simp only [hs, Bool.not_false, if_true]
            simp only [verifyStepLinks, hauth, hsig, he, if_false]
        | ok =>
          have hs : SkippedLink w l subMap step (kid, md) = false := by simp [SkippedLink, hauth, hsig]
          simp only [hs, Bool.not_false, if_true]
          simp only [verifyStepLinks, hauth, hsig]
          cases md.getPayload with
          | error e => rfl
          | ok payload =>
            simp only
            split
            · exact ih _ _
            · exact ih _ _

/-- **C02 (authorising only a subkey).** When the verification key has no
subkeys of its own — which is the case for the dictionary of a single subkey,
the key the rule selects when only that subkey is authorised — a successful
check means the scheme accepted the signature for *that key's own material*,
under that key's own id: neither the master key nor a sibling subkey can have
produced it. -/
theorem C02_subkey_only (S : Scheme) (nowSec : Int) (md : Metadata) (keyJ : JVal) (k : PubKey)
    (hk : readPubKey keyJ = .ok k) (hnosub : k.subkeys = [])
    (h : md.verifySignature S nowSec keyJ = .ok) :
    ∃ s ∈ md.sigs, s.keyid = some k.keyid ∧ ∃ msg v, md.signedBytes = some msg ∧ s.value = some v ∧
      S.verify k.material msg v = true := by
  cases md with
  | metablock sigs signed =>
    simp only [Metadata.verifySignature, metablockVerify, hk] at h
    split at h
    · cases h
    · rename_i s hfind
      have hmem : s ∈ sigs := List.mem_of_find?_eq_some hfind
      have hmatch := List.find?_some hfind
      have hid : s.keyid = some k.keyid := by
        simp only [sigMatchesKey, hnosub] at hmatch
        cases hsk : s.keyid with
        | none => simp [hsk] at hmatch
        | some i => simp [hsk] at hmatch; rw [hmatch]
      refine ⟨s, hmem, hid, ?_⟩
      split at h
      · split at h
        · cases h
        · rename_i b hb
          split at h
          · cases h
          · simp only [hid, hnosub, Dict.get?, List.find?_nil, Option.map_none] at h
            split at h
            · cases h
            · split at h
              · rename_i hv
                cases hsv : s.value with
                | none => simp [sigValueOk, hsv] at hv
                | some v =>
                  simp only [sigValueOk, hsv] at hv
                  exact ⟨b, v, hb, rfl, hv⟩
              · cases h
      · split at h
        · cases h
        · split at h
          · cases h
          · rename_i b hb
            split at h
            · rename_i hc
              cases hsv : s.value with
              | none => simp [sigValueOk, hsv] at hc
              | some v =>
                simp only [sigValueOk, hsv] at hc
                exact ⟨b, v, hb, rfl, hc.2⟩
            · cases h
  | envelope sigs text parsed =>
    simp only [Metadata.verifySignature, envelopeVerify, hk] at h
    split at h
    · cases h
    · split at h
      · rename_i hany
        rw [List.any_eq_true] at hany
        obtain ⟨s, hs, hc⟩ := hany
        simp only [decide_eq_true_eq] at hc
        cases hsv : s.value with
        | none => simp [sigValueOk, hsv] at hc
        | some v =>
          simp only [sigValueOk, hsv] at hc
          exact ⟨s, hs, hc.1, _, v, rfl, hsv, hc.2⟩
      · cases h

end InToto
