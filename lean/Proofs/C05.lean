import Proofs.C02
/-!
# C05 — artifacts used for a step are attested identically by a threshold of signers
-/
namespace InToto

variable (gm : Str → Str → Bool) (w : World)

theorem mapE_ok_inv {α β : Type} (f : α → Except Err β) :
    ∀ (l : List α) (r : List β), mapE f l = .ok r →
      (∀ y ∈ r, ∃ x ∈ l, f x = .ok y) ∧ (∀ x ∈ l, ∃ y ∈ r, f x = .ok y) ∧ r.length = l.length := by
  intro l
  induction l with
  | nil => intro r h; simp [mapE] at h; subst h; simp
  | cons a l ih =>
    intro r h
    simp only [mapE] at h
    split at h
    · cases h
    · rename_i y hy
      split at h
      · cases h
      · rename_i ys hys
        cases h
        obtain ⟨h1, h2, h3⟩ := ih ys hys
        refine ⟨?_, ?_, by simp [h3]⟩
        · intro z hz
          rcases List.mem_cons.mp hz with rfl | hz
          · exact ⟨a, List.mem_cons_self, hy⟩
          · obtain ⟨x, hx, hfx⟩ := h1 z hz
            exact ⟨x, List.mem_cons_of_mem _ hx, hfx⟩
        · intro x hx
          rcases List.mem_cons.mp hx with rfl | hx
          · exact ⟨y, List.mem_cons_self, hy⟩
          · obtain ⟨z, hz, hfz⟩ := h2 x hx
            exact ⟨z, List.mem_cons_of_mem _ hz, hfz⟩

/-- What `checkChain` establishes. -/
theorem checkChain_ok_inv {l : Layout} {chain : Dict Str (Dict Str Link)} {reduced : Dict Str Link}
    (h : checkChain gm l chain = .ok reduced) :
    verifyThresholdConstraints l chain = .ok () ∧ reduceChainLinks chain = .ok reduced ∧
    ∃ items, stepItems l = .ok items ∧ verifyAllItemRules gm (linksArts reduced) items = .ok () := by
  unfold checkChain at h
  split at h
  · cases h
  · rename_i u ht
    cases u
    split at h
    · cases h
    · rename_i red hr
      split at h
      · cases h
      · rename_i items hi
        split at h
        · cases h
        · rename_i u hv
          cases u
          cases h
          exact ⟨ht, hr, items, hi, hv⟩

/-- `reduce_chain_links`: the link used for a step is the first retained one. -/
theorem reduce_is_first {chain : Dict Str (Dict Str Link)} {reduced : Dict Str Link}
    (h : reduceChainLinks chain = .ok reduced) :
    ∀ nl ∈ reduced, ∃ links kid, (nl.1, links) ∈ chain ∧ links.head? = some (kid, nl.2) := by
  intro nl hnl
  obtain ⟨h1, _, _⟩ := mapE_ok_inv _ _ _ h
  obtain ⟨x, hx, hfx⟩ := h1 nl hnl
  obtain ⟨name, links⟩ := x
  cases links with
  | nil => simp at hfx
  | cons hd tl =>
    obtain ⟨kid, lk⟩ := hd
    simp only [Except.ok.injEq] at hfx
    subst hfx
    exact ⟨(kid, lk) :: tl, kid, hx, rfl⟩

/-- A step with threshold above one passes the constraint only with at least
`threshold` retained links that all agree with the first on materials and on
products. -/
theorem thresholdStep_ok_inv {chain : Dict Str (Dict Str Link)} {step : Step}
    (h : thresholdStep chain step = .ok ()) (hthr : 1 < step.threshold) :
    ∃ name links, nameOf step.name = .ok name ∧ Dict.get? chain name = some links ∧
      step.threshold ≤ (links.length : Int) ∧
      ∃ kid ref, links.head? = some (kid, ref) ∧
        ∀ p ∈ links, artsEq ref.materials p.2.materials = true ∧ artsEq ref.products p.2.products = true := by
  unfold thresholdStep at h
  have : ¬ step.threshold ≤ 1 := by omega
  simp only [this, if_false] at h
  split at h
  · cases h
  · rename_i name hn
    split at h
    · cases h
    · rename_i links hl
      split at h
      · cases h
      · rename_i hlen
        split at h
        · rename_i hag
          refine ⟨name, links, hn, hl, by omega, ?_⟩
          cases links with
          | nil => simp at hlen; omega
          | cons x rest =>
            obtain ⟨kid, ref⟩ := x
            refine ⟨kid, ref, rfl, ?_⟩
            intro p hp
            simp only [allAgree, List.all_eq_true, Bool.and_eq_true] at hag
            exact hag p hp
        · cases h

/-- **C05 (an agreeing group is what is evaluated).** If verification succeeds,
then for every step with threshold above one there are at least `threshold`
retained links for it, **all** retained links report the same materials and the
same products as the first of them, and that first link is the one handed to the
step's rules, to rules of other steps and inspections that reference the step,
and to the summary link. (By `C02_retained_good` every retained link is good, and
by `C02_counted_sound` they stem from at least `threshold` distinct authorised
functionaries.) -/
theorem C05_agreeing_group {fuel : Nat} {md : Metadata} {keys : List (Str × JVal)} {dir : Str}
    {params : Option (List (Str × Option Str))} {stepName : Str} {s : Link}
    (h : (verify gm w (fuel + 1) md keys dir params stepName).result = .ok s) :
    ∃ st : Stages gm w fuel md keys dir params stepName s,
      (∀ step ∈ st.layout.steps, 1 < step.threshold →
        ∃ name links, nameOf step.name = .ok name ∧ Dict.get? st.chain name = some links ∧
          step.threshold ≤ (links.length : Int) ∧
          ∃ kid ref, links.head? = some (kid, ref) ∧
            ∀ p ∈ links, artsEq ref.materials p.2.materials = true ∧ artsEq ref.products p.2.products = true) ∧
      (∀ nl ∈ st.reduced, ∃ links kid, (nl.1, links) ∈ st.chain ∧ links.head? = some (kid, nl.2)) := by
  obtain ⟨st⟩ := verify_ok_inv gm w h
  obtain ⟨ht, hr, _⟩ := checkChain_ok_inv gm st.hchain
  refine ⟨st, ?_, reduce_is_first hr⟩
  intro step hs hthr
  have := (allE_ok_iff _ _).mp ht step hs
  exact thresholdStep_ok_inv this hthr

/-- **C05 (disagreement is rejected).** If some retained link of a step with
threshold above one differs from the first in materials or products — wherever
it sits in load order — the threshold constraint fails. -/
theorem C05_disagree_rejected {chain : Dict Str (Dict Str Link)} {step : Step} {name : Str}
    {links : Dict Str Link} {kid : Str} {ref : Link}
    (hthr : 1 < step.threshold) (hn : nameOf step.name = .ok name) (hl : Dict.get? chain name = some links)
    (hhead : links.head? = some (kid, ref)) (p : Str × Link) (hp : p ∈ links)
    (hdiff : artsEq ref.materials p.2.materials = false ∨ artsEq ref.products p.2.products = false) :
    thresholdStep chain step ≠ .ok () := by
  intro h
  obtain ⟨name', links', hn', hl', _, kid', ref', hhead', hall⟩ := thresholdStep_ok_inv h hthr
  rw [hn] at hn'; cases hn'
  rw [hl] at hl'; cases hl'
  rw [hhead] at hhead'; cases hhead'
  have := hall p hp
  rcases hdiff with hd | hd
  · rw [hd] at this; exact absurd this.1 (by simp)
  · rw [hd] at this; exact absurd this.2 (by simp)

/-- … and a failing constraint fails the whole verification. -/
theorem C05_constraint_failure_rejects {fuel : Nat} {md : Metadata} {keys : List (Str × JVal)} {dir : Str}
    {params : Option (List (Str × Option Str))} {stepName : Str} {s : Link}
    (h : (verify gm w (fuel + 1) md keys dir params stepName).result = .ok s) :
    ∃ st : Stages gm w fuel md keys dir params stepName s,
      ∀ step ∈ st.layout.steps, thresholdStep st.chain step = .ok () := by
  obtain ⟨st⟩ := verify_ok_inv gm w h
  obtain ⟨ht, _, _⟩ := checkChain_ok_inv gm st.hchain
  exact ⟨st, (allE_ok_iff _ _).mp ht⟩

end InToto
