import InToto.Glob
/-!
# What the glob matcher decides (C03: patterns built from literals, `*`, `?` and `[..]` sets)

`matchToks` is a backtracking matcher; `Matches` says declaratively what a token
list matches. They coincide (`matchToks_iff`). Consequences used by the rule
theorems: `*` matches every path (so `DISALLOW *` / `ALLOW *` close a rule list),
a pattern without special characters matches exactly itself.
-/
namespace InToto.Glob

/-- Declarative meaning of a token list: `*` stands for any string (also across
`/`), every other token for one character it accepts. -/
inductive Matches : List Tok → List Char → Prop where
  | nil : Matches [] []
  | star (ts : List Tok) (s1 s2 : List Char) : Matches ts s2 → Matches (.star :: ts) (s1 ++ s2)
  | tok (t : Tok) (ts : List Tok) (c : Char) (s : List Char) :
      t ≠ .star → tokMatch t c = true → Matches ts s → Matches (t :: ts) (c :: s)

theorem anySuffix_iff (p : List Char → Bool) : ∀ (s : List Char),
    anySuffix p s = true ↔ ∃ s1 s2, s = s1 ++ s2 ∧ p s2 = true
  | [] => by
    simp only [anySuffix]
    constructor
    · intro h; exact ⟨[], [], rfl, h⟩
    · rintro ⟨s1, s2, h, hp⟩
      have h' := h.symm
      simp only [List.append_eq_nil_iff] at h'
      rw [h'.2] at hp; exact hp
  | c :: s => by
    simp only [anySuffix, Bool.or_eq_true]
    constructor
    · rintro (h | h)
      · exact ⟨[], c :: s, rfl, h⟩
      · obtain ⟨s1, s2, hs, hp⟩ := (anySuffix_iff p s).mp h
        exact ⟨c :: s1, s2, by rw [hs]; rfl, hp⟩
    · rintro ⟨s1, s2, hs, hp⟩
      cases s1 with
      | nil => left; simp only [List.nil_append] at hs; rw [hs]; exact hp
      | cons d s1' =>
        right
        simp only [List.cons_append, List.cons.injEq] at hs
        exact (anySuffix_iff p s).mpr ⟨s1', s2, hs.2, hp⟩

/-- **The matcher decides the declarative relation.** -/
theorem matchToks_iff : ∀ (ts : List Tok) (s : List Char), matchToks ts s = true ↔ Matches ts s
  | [], s => by
    simp only [matchToks, List.isEmpty_iff]
    constructor
    · intro h; rw [h]; exact .nil
    · intro h; cases h; rfl
  | .star :: ts, s => by
    simp only [matchToks]
    rw [anySuffix_iff]
    constructor
    · rintro ⟨s1, s2, hs, hp⟩
      rw [hs]
      exact .star ts s1 s2 ((matchToks_iff ts s2).mp hp)
    · intro h
      cases h with
      | star _ s1 s2 hm => exact ⟨s1, s2, rfl, (matchToks_iff ts s2).mpr hm⟩
      | tok _ _ _ _ hne _ _ => exact absurd rfl hne
  | .any :: ts, [] => by
    simp only [matchToks]
    constructor
    · intro h; cases h
    · intro h; cases h
  | .never :: ts, [] => by
    simp only [matchToks]
    constructor
    · intro h; cases h
    · intro h; cases h
  | .lit _ :: ts, [] => by
    simp only [matchToks]
    constructor
    · intro h; cases h
    · intro h; cases h
  | .set _ _ :: ts, [] => by
    simp only [matchToks]
    constructor
    · intro h; cases h
    · intro h; cases h
  | .any :: ts, c :: s => by
    simp only [matchToks, Bool.and_eq_true]
    constructor
    · rintro ⟨h1, h2⟩; exact .tok _ ts c s (by simp) h1 ((matchToks_iff ts s).mp h2)
    · intro h
      cases h with
      | tok _ _ _ _ _ h1 h2 => exact ⟨h1, (matchToks_iff ts s).mpr h2⟩
  | .never :: ts, c :: s => by
    simp only [matchToks, Bool.and_eq_true]
    constructor
    · rintro ⟨h1, h2⟩; exact .tok _ ts c s (by simp) h1 ((matchToks_iff ts s).mp h2)
    · intro h
      cases h with
      | tok _ _ _ _ _ h1 h2 => exact ⟨h1, (matchToks_iff ts s).mpr h2⟩
  | .lit x :: ts, c :: s => by
    simp only [matchToks, Bool.and_eq_true]
    constructor
    · rintro ⟨h1, h2⟩; exact .tok _ ts c s (by simp) h1 ((matchToks_iff ts s).mp h2)
    · intro h
      cases h with
      | tok _ _ _ _ _ h1 h2 => exact ⟨h1, (matchToks_iff ts s).mpr h2⟩
  | .set n it :: ts, c :: s => by
    simp only [matchToks, Bool.and_eq_true]
    constructor
    · rintro ⟨h1, h2⟩; exact .tok _ ts c s (by simp) h1 ((matchToks_iff ts s).mp h2)
    · intro h
      cases h with
      | tok _ _ _ _ _ h1 h2 => exact ⟨h1, (matchToks_iff ts s).mpr h2⟩

/-- **`*` matches every path** (including the empty one and paths with `/`). -/
theorem fnmatch_star (name : Str) : fnmatch ['*'] name = true := by
  have hp : parse ['*'] = [.star] := by decide
  unfold fnmatch
  rw [hp, matchToks_iff]
  have := Matches.star [] name [] .nil
  simpa using this

/-- A character that is not special in a pattern. -/
def plain (c : Char) : Bool := c ≠ '*' && c ≠ '?' && c ≠ '['

theorem parseAux_plain : ∀ (fuel : Nat) (pat : List Char) (acc : List Tok), pat.length < fuel →
    (∀ c ∈ pat, plain c = true) → parseAux fuel pat acc = acc.reverse ++ pat.map Tok.lit
  | 0, pat, _, h, _ => by simp at h
  | fuel + 1, [], acc, _, _ => by simp [parseAux]
  | fuel + 1, c :: rest, acc, h, hp => by
    have hc := hp c List.mem_cons_self
    simp only [plain, Bool.and_eq_true, bne_iff_ne, ne_eq, decide_eq_true_eq] at hc
    simp only [parseAux, hc.1.1, hc.1.2, hc.2, if_false]
    rw [parseAux_plain fuel rest (.lit c :: acc) (by simp at h; omega) (fun x hx => hp x (List.mem_cons_of_mem _ hx))]
    simp

theorem matches_lits : ∀ (pat s : List Char), Matches (pat.map Tok.lit) s ↔ s = pat
  | [], s => by
    constructor
    · intro h; cases h; rfl
    · intro h; rw [h]; exact .nil
  | c :: pat, s => by
    constructor
    · intro h
      cases h with
      | tok _ _ d s' _ hm hr =>
        simp only [tokMatch, decide_eq_true_eq] at hm
        rw [hm, (matches_lits pat s').mp hr]
    · intro h
      rw [h]
      exact .tok _ _ c pat (by simp) (by simp [tokMatch]) ((matches_lits pat pat).mpr rfl)

/-- **A pattern without `*`, `?`, `[` matches exactly itself.** -/
theorem fnmatch_literal (pat name : Str) (h : ∀ c ∈ pat, plain c = true) :
    fnmatch pat name = true ↔ name = pat := by
  unfold fnmatch parse
  rw [parseAux_plain (pat.length + 1) pat [] (by omega) h, matchToks_iff]
  simpa using matches_lits pat name

/-- `?` stands for exactly one character, whatever it is. -/
theorem fnmatch_question (name : Str) : fnmatch ['?'] name = true ↔ name.length = 1 := by
  have hp : parse ['?'] = [.any] := by decide
  unfold fnmatch
  rw [hp, matchToks_iff]
  constructor
  · intro h
    cases h with
    | tok _ _ c s _ _ hr => cases hr; rfl
  · intro h
    match name, h with
    | [c], _ => exact .tok _ _ c [] (by simp) rfl .nil

end InToto.Glob
