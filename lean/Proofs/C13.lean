import InToto.Streams
/-!
# C13 — recorded stdout / stderr / exit status are exact under every output schedule
-/
namespace InToto

/-! ## Universal newlines do not depend on chunk boundaries -/

def crPrefix (p : Bool) : Str := if p then ['\r'] else []

/-- Translation distributes over concatenation except across a CR | LF seam. -/
theorem translateNL_append : ∀ (a b : Str), ¬ (a.getLast? = some '\r' ∧ b.head? = some '\n') →
    translateNL (a ++ b) = translateNL a ++ translateNL b := by
  intro a
  induction a using translateNL.induct with
  | case1 => intro b _; simp [translateNL]
  | case2 rest ih =>
    intro b h
    have : ¬ (rest.getLast? = some '\r' ∧ b.head? = some '\n') := by
      intro hh; apply h
      refine ⟨?_, hh.2⟩
      cases rest with
      | nil => simp at hh
      | cons x xs => simpa using hh.1
    simp [translateNL, ih b this]
  | case3 rest hne ih =>
    intro b h
    cases rest with
    | nil =>
      -- a = ['\r']: b must not start with '\n'
      cases b with
      | nil => simp [translateNL]
      | cons c cs =>
        have hc : c ≠ '\n' := fun e => h ⟨rfl, by simp [e]⟩
        simp [translateNL, hc]
    | cons x xs =>
      have hx : x ≠ '\n' := fun e => hne xs (by rw [e])
      have : ¬ ((x :: xs).getLast? = some '\r' ∧ b.head? = some '\n') := by
        intro hh; apply h; exact ⟨by simpa using hh.1, hh.2⟩
      have := ih b this
      simp only [List.cons_append] at this ⊢
      simp [translateNL, hx, this]
  | case4 c rest _ hc' ih =>
    intro b h
    have : ¬ (rest.getLast? = some '\r' ∧ b.head? = some '\n') := by
      intro hh; apply h
      refine ⟨?_, hh.2⟩
      cases rest with
      | nil => simp at hh
      | cons x xs => simpa using hh.1
    have hc'' : c ≠ '\r' := fun e => hc' e
    simp [translateNL, hc'', ih b this]


theorem getLast_split : ∀ (l : Str) (x : Char), l.getLast? = some x → l.dropLast ++ [x] = l
  | [], _, h => by simp at h
  | [a], x, h => by simp at h; simp [h]
  | a :: b :: r, x, h => by
    have : (b :: r).getLast? = some x := by simpa using h
    simp [List.dropLast, getLast_split (b :: r) x this]

theorem drop_split (l future : List Nat) (pos N : Nat) :
    (l ++ future).drop pos =
      ((l.drop pos).take N) ++ (l ++ future).drop (pos + ((l.drop pos).take N).length) := by
  have e1 : (l ++ future).drop pos = l.drop pos ++ future.drop (pos - l.length) := List.drop_append
  have e2 : (l ++ future).drop (pos + ((l.drop pos).take N).length) =
      ((l ++ future).drop pos).drop ((l.drop pos).take N).length := by
    rw [List.drop_drop]
  have key : ∀ (A B : List Nat), (A ++ B).drop (A.take N).length = A.drop N ++ B := by
    intro A B
    calc (A ++ B).drop (A.take N).length
        = ((A.take N ++ A.drop N) ++ B).drop (A.take N).length := by rw [List.take_append_drop]
      _ = (A.take N ++ (A.drop N ++ B)).drop (A.take N).length := by rw [List.append_assoc]
      _ = A.drop N ++ B := List.drop_left
  rw [e2, e1, key, ← List.append_assoc, List.take_append_drop]

/-- Holding back a trailing CR: the text emitted now plus the translation of what
follows (with the held-back CR in front) is the translation of the whole. -/
theorem nl_core (s1 rest : Str) :
    translateNL (s1 ++ rest) =
      (if s1.getLast? = some '\r' then translateNL s1.dropLast else translateNL s1) ++
        translateNL (crPrefix (decide (s1.getLast? = some '\r')) ++ rest) := by
  by_cases h : s1.getLast? = some '\r'
  · have hs : s1.dropLast ++ ['\r'] = s1 := getLast_split _ _ h
    simp only [h, if_true, decide_true, crPrefix]
    conv => lhs; rw [← hs, List.append_assoc]
    exact translateNL_append _ _ (by simp)
  · simp only [h, if_false, decide_false, crPrefix, List.nil_append]
    exact translateNL_append _ _ (fun hh => h hh.1)

/-- **C13 (newline translation, non-final chunk).** -/
theorem nl_nonfinal (p : Bool) (s rest : Str) :
    translateNL (crPrefix p ++ s ++ rest) =
      (nlFeed p s false).2 ++ translateNL (crPrefix (nlFeed p s false).1 ++ rest) := by
  by_cases hA : p = true ∧ s = []
  · obtain ⟨rfl, rfl⟩ := hA
    simp [nlFeed, crPrefix, translateNL]
  · have hs1 : (if p = true ∧ (s ≠ [] ∨ false = true) then '\r' :: s else s) = crPrefix p ++ s := by
      cases p <;> simp [crPrefix]
      intro hs; exact absurd ⟨rfl, hs⟩ hA
    have := nl_core (crPrefix p ++ s) rest
    simp only [nlFeed, hs1, Bool.not_false, and_true]
    by_cases h : (crPrefix p ++ s).getLast? = some '\r'
    · simp only [h, if_true, decide_true] at this ⊢
      exact this
    · simp only [h, if_false, decide_false] at this ⊢
      have hp1 : (if p = true ∧ (s ≠ [] ∨ false = true) then false else p) = false := by
        cases p <;> simp
        intro hs; exact absurd ⟨rfl, hs⟩ hA
      rw [hp1]
      exact this

/-- **C13 (newline translation, final chunk).** -/
theorem nl_final (p : Bool) (s : Str) : nlFeed p s true = (false, translateNL (crPrefix p ++ s)) := by
  cases p <;> simp [nlFeed, crPrefix]

/-! ## The capture loop -/

/-- The decoder does not depend on how its input is chunked: if decoding
`a ++ b` in one go succeeds, so does decoding `a` and then `b`, with the same
text and final state. (Hypothesis about the codec; the UTF-8 decoder of the
driver is compared with CPython's by the correspondence check.) -/
def ChunkIndependent {σ : Type} (D : IncDecoder σ) : Prop :=
  ∀ (st st2 : σ) (a b : List Nat) (fin : Bool) (t : Str), D.feed st (a ++ b) fin = some (st2, t) →
    ∃ st1 t1 t2, D.feed st a false = some (st1, t1) ∧ D.feed st1 b fin = some (st2, t2) ∧ t = t1 ++ t2

/-- The invariant of one capture: what has been captured so far, followed by the
translation of what the rest of the stream decodes to, is the final text. -/
def CapInv {σ : Type} (D : IncDecoder σ) (c : Capture σ) (all : List Nat) (final : Str) : Prop :=
  ∃ st' trem, D.feed c.dstate (all.drop c.pos) true = some (st', trem) ∧
    c.text ++ translateNL (crPrefix c.pendingCR ++ trem) = final

theorem CapInv.init {σ : Type} (D : IncDecoder σ) (all : List Nat) (st' : σ) (t : Str)
    (h : D.feed D.init all true = some (st', t)) : CapInv D (Capture.init D) all (translateNL t) :=
  ⟨st', t, by simpa [Capture.init] using h, by simp [Capture.init, crPrefix]⟩

/-- A non-final read keeps the invariant, whatever part of the stream has been
written so far (`file` is a prefix of `all`). -/
theorem CapInv.read_nonfinal {σ : Type} (D : IncDecoder σ) (hD : ChunkIndependent D) (N : Nat)
    (c : Capture σ) (file future : List Nat) (final : Str)
    (hinv : CapInv D c (file ++ future) final) :
    ∃ c', c.read D N file false = some c' ∧ CapInv D c' (file ++ future) final := by
  obtain ⟨st', trem, hfeed, htext⟩ := hinv
  -- the chunk read is a prefix of the rest of the stream
  rw [drop_split file future c.pos N] at hfeed
  obtain ⟨st1, t1, t2, h1, h2, rfl⟩ := hD _ _ _ _ _ _ hfeed
  refine ⟨{ dstate := st1, pendingCR := (nlFeed c.pendingCR t1 false).1,
            pos := c.pos + ((file.drop c.pos).take N).length,
            text := c.text ++ (nlFeed c.pendingCR t1 false).2 }, ?_, st', t2, h2, ?_⟩
  · simp only [Capture.read, Bool.false_eq_true, if_false, h1]
  · simp only
    rw [← htext, List.append_assoc]
    congr 1
    have := nl_nonfinal c.pendingCR t1 t2
    rw [List.append_assoc] at this
    exact this.symm

/-- The final read — everything that is left — completes the text. -/
theorem CapInv.read_final {σ : Type} (D : IncDecoder σ) (N : Nat)
    (c : Capture σ) (file : List Nat) (final : Str) (hinv : CapInv D c file final) :
    ∃ c', c.read D N file true = some c' ∧ c'.text = final := by
  obtain ⟨st', trem, hfeed, htext⟩ := hinv
  refine ⟨{ dstate := st', pendingCR := (nlFeed c.pendingCR trem true).1,
            pos := c.pos + (file.drop c.pos).length,
            text := c.text ++ (nlFeed c.pendingCR trem true).2 }, ?_, ?_⟩
  · simp only [Capture.read, if_true, hfeed]
  · simp only [nl_final]
    exact htext

/-- All bytes the child writes to a stream over a schedule. -/
def allOut (sched : List PollEvent) : List Nat := (sched.map (·.outW)).flatten
def allErr (sched : List PollEvent) : List Nat := (sched.map (·.errW)).flatten

/-- The schedule's running phase never hits the time limit. -/
def WithinLimit (timeout : Option Int) (ev : PollEvent) : Prop :=
  match timeout with
  | some t => ¬ ev.clock > t
  | none => True

/-- **C13 (exact under every schedule).** Let the child write its output in any
chunks at any times relative to the parent's polling (`running`: the polls that
find it alive, each with whatever has been written since the previous poll), and
exit with status `code` at the last poll, possibly right after its last write.
If the time limit is not hit and each stream's bytes decode as a whole to
`tOut` / `tErr`, then the call returns exactly `code`, `translateNL tOut` and
`translateNL tErr`: every character, in order, line endings as in any text-mode
stream — for every read-chunk size `N` and whatever the chunking. -/
theorem C13_exact {σ : Type} (D : IncDecoder σ) (hD : ChunkIndependent D) (N : Nat) (timeout : Option Int)
    (running : List PollEvent) (last : PollEvent) (code : Int)
    (hrun : ∀ ev ∈ running, ev.status = none ∧ WithinLimit timeout ev)
    (hlast : last.status = some code)
    (stO stE : σ) (tOut tErr : Str)
    (hout : D.feed D.init (allOut (running ++ [last])) true = some (stO, tOut))
    (herr : D.feed D.init (allErr (running ++ [last])) true = some (stE, tErr)) :
    runStreamsFrom D N timeout (running ++ [last]) = .returned code (translateNL tOut) (translateNL tErr) := by
  unfold runStreamsFrom
  -- generalise over the loop state
  suffices H : ∀ (running : List PollEvent) (outF errF : List Nat) (co ce : Capture σ) (fo fe : Str),
      (∀ ev ∈ running, ev.status = none ∧ WithinLimit timeout ev) →
      CapInv D co (outF ++ allOut (running ++ [last])) fo →
      CapInv D ce (errF ++ allErr (running ++ [last])) fe →
      runStreams D N timeout (running ++ [last]) outF errF co ce = .returned code fo fe by
    exact H running [] [] _ _ _ _ hrun (by simpa using CapInv.init D _ stO tOut hout)
      (by simpa using CapInv.init D _ stE tErr herr)
  intro running
  induction running with
  | nil =>
    intro outF errF co ce fo fe _ hio hie
    simp only [List.nil_append, allOut, allErr, List.map_cons, List.map_nil, List.flatten_cons, List.flatten_nil,
      List.append_nil] at hio hie
    obtain ⟨co', hro, hto⟩ := CapInv.read_final D N co _ fo hio
    obtain ⟨ce', hre, hte⟩ := CapInv.read_final D N ce _ fe hie
    simp only [List.nil_append, runStreams, hlast, hro, hre, hto, hte]
  | cons ev rest ih =>
    intro outF errF co ce fo fe hrun hio hie
    have hev := hrun ev List.mem_cons_self
    have hio' : CapInv D co ((outF ++ ev.outW) ++ allOut (rest ++ [last])) fo := by
      simpa [allOut, List.append_assoc] using hio
    have hie' : CapInv D ce ((errF ++ ev.errW) ++ allErr (rest ++ [last])) fe := by
      simpa [allErr, List.append_assoc] using hie
    obtain ⟨co', hro, hio''⟩ := CapInv.read_nonfinal D hD N co _ _ fo hio'
    obtain ⟨ce', hre, hie''⟩ := CapInv.read_nonfinal D hD N ce _ _ fe hie'
    have hlim : limitHit timeout ev = false := by
      have := hev.2
      unfold WithinLimit at this
      unfold limitHit
      cases timeout with
      | none => rfl
      | some t => simpa using this
    simp only [List.cons_append, runStreams, hev.1, hlim, Bool.false_eq_true, if_false, hro, hre]
    exact ih _ _ _ _ _ _ (fun e he => hrun e (List.mem_cons_of_mem _ he)) hio'' hie''

/-- **C13 (time limit).** If the clock has passed the limit at a poll that finds
the child alive — after any number of polls within the limit — the outcome is
`TimeoutExpired` (the child is killed and reaped first), unless decoding failed
before. -/
theorem C13_timeout {σ : Type} (D : IncDecoder σ) (N : Nat) (t : Int) (ev : PollEvent) (rest : List PollEvent)
    (outF errF : List Nat) (co ce : Capture σ) (hs : ev.status = none) (hc : ev.clock > t) :
    runStreams D N (some t) (ev :: rest) outF errF co ce = .timedOut := by
  simp [runStreams, hs, limitHit, hc]

/-- The recorded status is the status `poll()` reports, whatever it is (0..255,
or negative for a signal). -/
theorem C13_status {σ : Type} (D : IncDecoder σ) (N : Nat) (timeout : Option Int) (sched : List PollEvent)
    (code : Int) (out err : Str) (h : runStreamsFrom D N timeout sched = .returned code out err) :
    ∃ ev ∈ sched, ev.status = some code := by
  unfold runStreamsFrom at h
  generalize ([] : List Nat) = outF at h
  generalize (Capture.init D) = co at h
  revert h
  suffices H : ∀ (outF errF : List Nat) (co ce : Capture σ),
      runStreams D N timeout sched outF errF co ce = .returned code out err → ∃ ev ∈ sched, ev.status = some code by
    intro h; exact H _ _ _ _ h
  induction sched with
  | nil => intro _ _ _ _ h; simp [runStreams] at h
  | cons ev rest ih =>
    intro outF errF co ce h
    simp only [runStreams] at h
    split at h
    · rename_i c hc
      split at h
      · cases h; exact ⟨ev, List.mem_cons_self, hc⟩
      · cases h
    · split at h
      · cases h
      · split at h
        · obtain ⟨e, he, hs⟩ := ih _ _ _ _ h
          exact ⟨e, List.mem_cons_of_mem _ he, hs⟩
        · cases h

end InToto
