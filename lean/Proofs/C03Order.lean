import Proofs.C03
/-!
# C03 — independence of the order in which artifacts are stored

The rule engine reads links only through dictionary look-ups and the queue only
through membership, so permuting the stored order of any artifact dictionary,
of the dictionary of links, or of the queue changes neither the verdict nor
(up to permutation) the remaining queue.
-/
namespace InToto

variable (gm : Str → Str → Bool)

/-- Same verdict; on success the queues are permutations of each other. -/
def ResPerm : Except Err (List Str) → Except Err (List Str) → Prop
  | .ok a, .ok b => a.Perm b
  | .error e, .error e' => e = e'
  | _, _ => False

/-- Extensional equality of two artifact dictionaries. -/
def ArtsExt (a b : Artifacts) : Prop := ∀ p, a.get? p = b.get? p

def LinkExt (l l' : LinkArts) : Prop := ArtsExt l.materials l'.materials ∧ ArtsExt l.products l'.products

def OptLinkExt : Option LinkArts → Option LinkArts → Prop
  | some l, some l' => LinkExt l l'
  | none, none => True
  | _, _ => False

def LinksExt (L L' : Dict Str LinkArts) : Prop := ∀ n, OptLinkExt (L.get? n) (L'.get? n)

theorem Dict.contains_eq_isSome {α : Type} (d : Dict Str α) (k : Str) :
    d.contains k = (d.get? k).isSome := by
  induction d with
  | nil => rfl
  | cons x d ih =>
    simp only [Dict.contains, Dict.get?, List.any_cons, List.find?_cons] at ih ⊢
    by_cases h : x.1 = k <;> simp [h, ih]

theorem LinkExt.get {l l' : LinkArts} (h : LinkExt l l') (dt : DestType) : ArtsExt (l.get dt) (l'.get dt) := by
  cases dt
  · exact h.1
  · exact h.2

/-! ### `allSome` under permutation -/

def OptPerm {β : Type} : Option (List β) → Option (List β) → Prop
  | some r, some r' => r.Perm r'
  | none, none => True
  | _, _ => False

theorem OptPerm.trans {β : Type} {a b c : Option (List β)} (h1 : OptPerm a b) (h2 : OptPerm b c) :
    OptPerm a c := by
  cases a <;> cases b <;> cases c <;> simp_all [OptPerm]
  exact h1.trans h2

theorem allSome_perm {α β : Type} (f : α → Option β) {l l' : List α} (h : l.Perm l') :
    OptPerm (allSome f l) (allSome f l') := by
  induction h with
  | nil => simp [allSome, OptPerm]
  | @cons x l₁ l₂ _ ih =>
    simp only [allSome]
    cases f x <;> cases h1 : allSome f l₁ <;> cases h2 : allSome f l₂ <;>
      simp_all [OptPerm]
  | swap x y l =>
    simp only [allSome]
    cases f x <;> cases f y <;> cases allSome f l <;> simp [OptPerm]
    exact List.Perm.swap _ _ _
  | trans _ _ ih1 ih2 => exact ih1.trans ih2

/-! ### One rule -/

theorem any_perm {l l' : List Str} (h : l.Perm l') (p : Str → Bool) : l.any p = l'.any p := by
  rw [Bool.eq_iff_iff, List.any_eq_true, List.any_eq_true]
  constructor
  · rintro ⟨x, hx, hp⟩; exact ⟨x, h.mem_iff.mp hx, hp⟩
  · rintro ⟨x, hx, hp⟩; exact ⟨x, h.mem_iff.mpr hx, hp⟩

theorem contains_perm {l l' : List Str} (h : l.Perm l') (x : Str) : l.contains x = l'.contains x := by
  rw [Bool.eq_iff_iff, List.contains_iff_mem, List.contains_iff_mem]
  exact h.mem_iff

theorem genericCond_ext (g : GenericType) {item item' : LinkArts} (h : LinkExt item item') (p : Str) :
    genericCond g item p = genericCond g item' p := by
  cases g <;> simp [genericCond, Dict.contains_eq_isSome, h.1 p, h.2 p]

theorem matchOne_ext (sp dp : Str) {src src' dest dest' : Artifacts}
    (hs : ArtsExt src src') (hd : ArtsExt dest dest') :
    matchOne sp dp src dest = matchOne sp dp src' dest' := by
  funext path
  simp [matchOne, hs _, hd _]

theorem filter_generic_perm (g : GenericType) {item item' : LinkArts} (hi : LinkExt item item')
    {q q' : List Str} (hq : q.Perm q') (pat : Str) :
    (q.filter (fun p => !(gm pat p && genericCond g item p))).Perm
      (q'.filter (fun p => !(gm pat p && genericCond g item' p))) := by
  have : (fun p => !(gm pat p && genericCond g item p)) = (fun p => !(gm pat p && genericCond g item' p)) := by
    funext p; rw [genericCond_ext g hi]
  rw [this]
  exact hq.filter _

theorem applyRule_perm {L L' : Dict Str LinkArts} (hL : LinksExt L L')
    {item item' : LinkArts} (hi : LinkExt item item')
    {arts arts' : Artifacts} (ha : ArtsExt arts arts')
    {q q' : List Str} (hq : q.Perm q') (rd : RuleData) :
    ResPerm (applyRule gm L item arts q rd) (applyRule gm L' item' arts' q' rd) := by
  cases rd with
  | generic g pat =>
    cases g
    case disallow =>
      simp only [applyRule, any_perm hq]
      split <;> simp [ResPerm, hq]
    case require =>
      simp only [applyRule, contains_perm hq]
      split <;> simp [ResPerm, hq]
    all_goals
      simp only [applyRule, ResPerm]
      exact filter_generic_perm gm _ hi hq pat
  | match_ pattern sp dp dt dn =>
    simp only [applyRule, verifyMatchRule]
    have hl := hL dn
    cases h1 : L.get? dn <;> cases h2 : L'.get? dn <;> simp only [h1, h2, OptLinkExt] at hl
    · simp only [ResPerm]; exact hq.filter _
    · rename_i dl dl'
      have hc : ((stripPrefix sp q).filter (gm pattern)).Perm ((stripPrefix sp q').filter (gm pattern)) := by
        apply List.Perm.filter
        unfold stripPrefix
        split
        · exact hq
        · exact hq.filterMap _
      dsimp only
      rw [matchOne_ext sp dp ha (hl.get dt)]
      have hp := allSome_perm (matchOne sp dp arts' (dl'.get dt)) hc
      cases h3 : allSome (matchOne sp dp arts' (dl'.get dt)) ((stripPrefix sp q).filter (gm pattern)) <;>
        cases h4 : allSome (matchOne sp dp arts' (dl'.get dt)) ((stripPrefix sp q').filter (gm pattern)) <;>
        simp only [h3, h4, OptPerm] at hp
      · simp [ResPerm]
      · rename_i rs rs'
        simp only [ResPerm]
        have hcons : (rs.filterMap id).Perm (rs'.filterMap id) := hp.filterMap _
        have : (fun p => !(rs.filterMap id).contains p) = (fun p => !(rs'.filterMap id).contains p) := by
          funext p; rw [contains_perm hcons]
        rw [this]
        exact hq.filter _

theorem applyRules_perm {L L' : Dict Str LinkArts} (hL : LinksExt L L')
    {item item' : LinkArts} (hi : LinkExt item item')
    {arts arts' : Artifacts} (ha : ArtsExt arts arts')
    (rules : List (List Str)) {q q' : List Str} (hq : q.Perm q') :
    ResPerm (applyRules gm L item arts rules q) (applyRules gm L' item' arts' rules q') := by
  induction rules generalizing q q' with
  | nil => simpa [applyRules, ResPerm] using hq
  | cons rule rest ih =>
    simp only [applyRules]
    cases hu : unpackStrs rule with
    | error e => simp [ResPerm]
    | ok rd =>
      simp only
      have h1 := applyRule_perm gm hL hi ha hq rd
      cases h2 : applyRule gm L item arts q rd <;> cases h3 : applyRule gm L' item' arts' q' rd <;>
        simp only [h2, h3, ResPerm] at h1
      · simp [ResPerm, h1]
      · exact ih h1

/-! ### From stored order to look-ups -/

theorem Dict.get?_perm {α : Type} {d d' : Dict Str α} (h : d.Perm d') (hn : d.keys.Nodup) (k : Str) :
    d.get? k = d'.get? k := by
  induction h with
  | nil => rfl
  | cons x _ ih =>
    simp only [Dict.keys, List.map_cons, List.nodup_cons] at hn
    simp only [Dict.get?, List.find?_cons]
    by_cases hx : x.1 = k
    · simp [hx]
    · simp only [hx, decide_false]
      exact ih hn.2
  | swap x y l =>
    simp only [Dict.keys, List.map_cons, List.nodup_cons, List.mem_cons, not_or] at hn
    simp only [Dict.get?, List.find?_cons]
    by_cases hx : x.1 = k <;> by_cases hy : y.1 = k <;> simp [hx, hy]
    exact absurd (hy.trans hx.symm) hn.1.1
  | @trans l₁ l₂ l₃ h1 _ ih1 ih2 =>
    rw [ih1 hn]
    apply ih2
    have hk : (Dict.keys l₁).Perm (Dict.keys l₂) := h1.map Prod.fst
    exact hk.nodup_iff.mp hn

theorem ArtsExt_of_perm {a a' : Artifacts} (h : a.Perm a') (hn : a.keys.Nodup) : ArtsExt a a' :=
  fun p => Dict.get?_perm h hn p

theorem LinksExt_of_perm {L L' : Dict Str LinkArts} (h : L.Perm L') (hn : L.keys.Nodup) : LinksExt L L' := by
  intro n
  rw [← Dict.get?_perm h hn n]
  cases L.get? n <;> simp [OptLinkExt, LinkExt, ArtsExt]

/-- Python `==` on hash records does not depend on the order of their entries. -/
theorem hashEq_perm {a a' b b' : HashRec} (ha : a.Perm a') (hb : b.Perm b')
    (hna : a.keys.Nodup) (hnb : b.keys.Nodup) : hashEq a b = hashEq a' b' := by
  have ea := fun k => Dict.get?_perm ha hna k
  have eb := fun k => Dict.get?_perm hb hnb k
  simp only [hashEq, Dict.eqv]
  rw [Bool.eq_iff_iff]
  simp only [Bool.and_eq_true, List.all_eq_true, decide_eq_true_eq]
  constructor
  · rintro ⟨h1, h2⟩
    exact ⟨fun p hp => by rw [← eb]; exact h1 p (ha.mem_iff.mpr hp),
           fun p hp => by rw [← ea]; exact h2 p (hb.mem_iff.mpr hp)⟩
  · rintro ⟨h1, h2⟩
    exact ⟨fun p hp => by rw [eb]; exact h1 p (ha.mem_iff.mp hp),
           fun p hp => by rw [ea]; exact h2 p (hb.mem_iff.mp hp)⟩

/-- **C03 (order independence).** Let the dictionary of links be stored in any
order, and the item's materials and products be stored in any order (distinct
keys, as in any JSON object / Python dict). Then `verify_item_rules` gives the
same verdict, and on success the remaining queues are permutations of each
other. -/
theorem C03_order_independent (name : Str) (ty : DestType) (rules : List (List Str))
    (L L' : Dict Str LinkArts) (hL : LinksExt L L')
    (hkeys : ∀ item item', L.get? name = some item → L'.get? name = some item' →
      ((item.get ty).keys).Perm ((item'.get ty).keys)) :
    ResPerm (verifyItemRules gm name ty rules L) (verifyItemRules gm name ty rules L') := by
  unfold verifyItemRules
  have hl := hL name
  cases h1 : L.get? name <;> cases h2 : L'.get? name <;> simp only [h1, h2, OptLinkExt] at hl
  · simp [ResPerm]
  · rename_i item item'
    exact applyRules_perm gm hL hl (hl.get ty) rules (hkeys item item' h1 h2)

/-- Instance of the hypotheses: permuting the list of links, and the stored
order of one link's materials and products. -/
theorem C03_order_independent_perm (name : Str) (ty : DestType) (rules : List (List Str))
    (L L' : Dict Str LinkArts) (hp : L.Perm L') (hn : L.keys.Nodup) :
    ResPerm (verifyItemRules gm name ty rules L) (verifyItemRules gm name ty rules L') := by
  apply C03_order_independent gm name ty rules L L' (LinksExt_of_perm hp hn)
  intro item item' h1 h2
  rw [← Dict.get?_perm hp hn name, h1] at h2
  cases h2
  exact List.Perm.refl _

theorem C03_order_independent_item (name : Str) (ty : DestType) (rules : List (List Str))
    (rest : Dict Str LinkArts) (item item' : LinkArts)
    (hm : item.materials.Perm item'.materials) (hp : item.products.Perm item'.products)
    (hnm : item.materials.keys.Nodup) (hnp : item.products.keys.Nodup) :
    ResPerm (verifyItemRules gm name ty rules ((name, item) :: rest))
            (verifyItemRules gm name ty rules ((name, item') :: rest)) := by
  have hext : LinkExt item item' := ⟨ArtsExt_of_perm hm hnm, ArtsExt_of_perm hp hnp⟩
  apply C03_order_independent gm name ty rules
  · intro n
    simp only [Dict.get?, List.find?_cons]
    by_cases h : name = n
    · simp [h, OptLinkExt]; exact hext
    · simp only [h, decide_false]
      cases (List.find? (fun p => decide (p.1 = n)) rest) <;> simp [OptLinkExt, LinkExt, ArtsExt]
  · intro i i' h1 h2
    simp [Dict.get?] at h1 h2
    subst h1; subst h2
    cases ty
    · exact hm.map _
    · exact hp.map _

end InToto
