import InToto.Run
/-!
# C12 — two-phase recording keeps start-time materials and is crash safe
-/
namespace InToto

/-- **C12 (stop, specification).** Finishing succeeds only if the preliminary
record exists, is unaltered and was signed by the same key; the result then
holds exactly the materials captured at start and the products present at stop,
is signed by that key, and the preliminary record is gone. -/
theorem C12_stop_spec (key : Str) (products : Dict Str RecVal) (d d' : WDir) (given : LinkExtras)
    (h : recordStop key products d given = .ok d') :
    ∃ p, d.prelim = .complete p ∧ p.signer = key ∧ p.intact = true ∧
      d'.prelim = .absent ∧
      d'.final = .complete (finalOf p products key given) := by
  unfold recordStop at h
  split at h
  · cases h
  · cases h
  · rename_i p hp
    split at h
    · rename_i hc
      cases h
      exact ⟨p, hp, hc.1, hc.2, rfl, rfl⟩
    · cases h

/-- **C12 (stop, failure writes nothing).** Whenever finishing fails — no
preliminary record, altered record, record signed by another key — the directory
is exactly what it was: no final link is written. (The function returns no new
directory at all; `C12_ops_refine` shows the operation sequence is only started
on its success path.) -/
theorem C12_stop_failure_cases (key : Str) (products : Dict Str RecVal) (d : WDir) (given : LinkExtras) :
    (d.prelim = .absent → recordStop key products d given = .error .os) ∧
    (∀ p, d.prelim = .complete p → p.intact = false → recordStop key products d given = .error .signature) ∧
    (∀ p, d.prelim = .complete p → p.signer ≠ key → recordStop key products d given = .error .signature) := by
  refine ⟨?_, ?_, ?_⟩
  · intro h; simp [recordStop, h]
  · intro p h hi; simp [recordStop, h, hi]
  · intro p h hs; simp [recordStop, h, hs]

/-- The operation sequence, run to completion, is the pure function. -/
theorem C12_ops_refine (key : Str) (products : Dict Str RecVal) (d d' : WDir) (n : Nat) (given : LinkExtras)
    (h : recordStop key products d given = .ok d') (p : Prelim) (hp : d.prelim = .complete p) :
    crashAfter (finalOf p products key given) d n (stopOps n).length = d' := by
  obtain ⟨p', hp', _, _, h1, h2⟩ := C12_stop_spec key products d d' given h
  rw [hp] at hp'
  cases hp'
  unfold crashAfter
  rw [List.take_length]
  have : ∀ (d0 : WDir) (m : Nat), (List.replicate m StopOp.readProduct).foldl
      (applyStopOp (finalOf p products key given)) d0 = d0 := by
    intro d0 m
    induction m with
    | zero => rfl
    | succ m ih => simp [List.replicate_succ, applyStopOp, ih]
  simp only [stopOps, List.foldl_append, List.foldl_cons, List.foldl_nil, applyStopOp, this]
  cases d'
  simp only at h1 h2
  simp [h1, h2]

/-- **C12 (what the caller passes at stop is what the link records).** A given
command / by-products / environment replaces the value carried over from start;
what is not given is kept; materials stay those of the start, whatever is passed. -/
theorem C12_stop_extras (p : Prelim) (products : Dict Str RecVal) (key : Str) (given : LinkExtras) :
    (finalOf p products key given).materials = p.materials ∧
    (given.command ≠ [] → (finalOf p products key given).extras.command = given.command) ∧
    (given.command = [] → (finalOf p products key given).extras.command = p.extras.command) ∧
    (∀ b, given.byproducts = some b → (finalOf p products key given).extras.byproducts = some b) ∧
    (given.byproducts = none → (finalOf p products key given).extras.byproducts = p.extras.byproducts) ∧
    (∀ e, given.environment = some e → (finalOf p products key given).extras.environment = some e) ∧
    (given.environment = none → (finalOf p products key given).extras.environment = p.extras.environment) := by
  refine ⟨rfl, ?_, ?_, ?_, ?_, ?_, ?_⟩ <;> intro h <;> simp_all [finalOf, LinkExtras.override]

/-- **C12 (gpg key-argument forms).** Finishing succeeds only if exactly one
preliminary record of that step exists, it is unaltered and was signed by the
same key; the link then holds its materials. A record started by another key,
a re-signed one, none or several: failure. -/
theorem C12_stop_glob_spec (key : Str) (products : Dict Str RecVal) (prelims : List (FState Prelim))
    (given : LinkExtras) (l : FinalLink) (h : recordStopGlob key products prelims given = .ok l) :
    ∃ p, prelims = [.complete p] ∧ p.signer = key ∧ p.intact = true ∧ l = finalOf p products key given := by
  unfold recordStopGlob at h
  split at h
  · cases h
  · rename_i p
    split at h
    · rename_i hc
      cases h
      exact ⟨p, rfl, hc.1, hc.2, rfl⟩
    · cases h
  · cases h
  · cases h
  · cases h

/-- At least one of the two records is whole. -/
def Safe (p : Prelim) (link : FinalLink) (d : WDir) : Prop :=
  d.prelim = .complete p ∨ d.final = .complete link

/-- Everything before the removal of the preliminary record. -/
def stopFront (n : Nat) : List StopOp :=
  [.readPrelim] ++ List.replicate n .readProduct ++ [.createFinal, .writeFinal]

theorem stopOps_eq (n : Nat) : stopOps n = stopFront n ++ [.removePrelim] := by
  simp [stopOps, stopFront]

theorem stopFront_length (n : Nat) : (stopFront n).length = n + 3 := by
  simp [stopFront]

theorem removePrelim_not_in_front (n : Nat) : StopOp.removePrelim ∉ stopFront n := by
  simp [stopFront, List.mem_replicate]

/-- Operations other than the removal leave the preliminary record alone. -/
theorem prelim_kept (p : Prelim) (link : FinalLink) : ∀ (ops : List StopOp) (d : WDir),
    d.prelim = .complete p → StopOp.removePrelim ∉ ops → (ops.foldl (applyStopOp link) d).prelim = .complete p := by
  intro ops
  induction ops with
  | nil => intro d hp _; exact hp
  | cons x xs ih =>
    intro d hp hx
    simp only [List.foldl_cons]
    apply ih
    · have hne : x ≠ .removePrelim := fun h => hx (by simp [h])
      cases x <;> simp_all [applyStopOp]
    · exact fun h => hx (List.mem_cons_of_mem _ h)

theorem crash_before_end_keeps_prelim (p : Prelim) (link : FinalLink) (d : WDir) (hp : d.prelim = .complete p)
    (n k : Nat) (hk : k < (stopOps n).length) : (crashAfter link d n k).prelim = .complete p := by
  unfold crashAfter
  apply prelim_kept p link _ d hp
  have hk' : k ≤ (stopFront n).length := by
    rw [stopOps_eq, List.length_append, stopFront_length] at hk
    rw [stopFront_length]
    simp at hk
    omega
  rw [stopOps_eq, List.take_append_of_le_length hk']
  exact fun h => removePrelim_not_in_front n (List.mem_of_mem_take h)

/-- **C12 (crash safety).** At whatever point the process dies during the stop
phase — after any number `k` of completed operations, including inside the write
of the final link — the preliminary record is still intact **or** the final link
is complete: the preliminary record is removed only after the final link has
been completely written. -/
theorem C12_crash_safe (p : Prelim) (link : FinalLink) (d : WDir) (hp : d.prelim = .complete p)
    (n k : Nat) : Safe p link (crashAfter link d n k) := by
  by_cases hk : k < (stopOps n).length
  · exact .inl (crash_before_end_keeps_prelim p link d hp n k hk)
  · right
    unfold crashAfter
    have hall : (stopOps n).take k = stopOps n := List.take_of_length_le (by omega)
    rw [hall]
    simp only [stopOps, List.foldl_append, List.foldl_cons, List.foldl_nil, applyStopOp]

/-- **C12 (retry).** From every crash state in which the preliminary record is
still intact, running the stop phase again succeeds, with the same result as an
uninterrupted run. -/
theorem C12_retry (key : Str) (products : Dict Str RecVal) (p : Prelim) (d : WDir) (given : LinkExtras)
    (hp : d.prelim = .complete p) (hs : p.signer = key) (hi : p.intact = true) (n k : Nat)
    (hk : k < (stopOps n).length) :
    recordStop key products (crashAfter (finalOf p products key given) d n k) given =
      .ok { prelim := .absent, final := .complete (finalOf p products key given) } := by
  have hprelim := crash_before_end_keeps_prelim p (finalOf p products key given) d hp n k hk
  simp [recordStop, hprelim, hs, hi]

/-- Distinct (step name, key id) pairs use distinct files: operations of
interleaved start / stop / run calls for several steps and keys touch disjoint
names. -/
theorem C12_disjoint_names (n1 n2 k1 k2 : Str) (hdot1 : '.' ∉ n1) (hdot2 : '.' ∉ n2)
    (h : n1 ++ '.' :: trunc8 k1 ++ lit ".link" = n2 ++ '.' :: trunc8 k2 ++ lit ".link") :
    n1 = n2 ∧ trunc8 k1 = trunc8 k2 := by
  -- split at the first dot
  have key : ∀ (a b s t : Str), '.' ∉ a → '.' ∉ b → a ++ '.' :: s = b ++ '.' :: t → a = b ∧ s = t := by
    intro a
    induction a with
    | nil =>
      intro b s t _ hb h
      cases b with
      | nil => simpa using h
      | cons c cs =>
        simp only [List.nil_append, List.cons_append, List.cons.injEq] at h
        exact absurd (h.1 ▸ List.mem_cons_self) hb
    | cons c cs ih =>
      intro b s t ha hb h
      cases b with
      | nil =>
        simp only [List.nil_append, List.cons_append, List.cons.injEq] at h
        exact absurd (h.1 ▸ List.mem_cons_self) ha
      | cons d ds =>
        simp only [List.cons_append, List.cons.injEq] at h
        obtain ⟨rfl, h⟩ := h
        obtain ⟨rfl, rfl⟩ := ih ds s t (fun hm => ha (List.mem_cons_of_mem _ hm))
          (fun hm => hb (List.mem_cons_of_mem _ hm)) h
        exact ⟨rfl, rfl⟩
  rw [List.append_assoc, List.append_assoc] at h
  obtain ⟨h1, h2⟩ := key n1 n2 _ _ hdot1 hdot2 h
  exact ⟨h1, List.append_cancel_right h2⟩


/-! ## Interleaved recordings do not interfere -/

theorem applyDirOp_other (st : DirState) (op : DirOp) (s : Slot) (h : op.slot ≠ s) :
    (applyDirOp st op).1 s = st s := by
  have hs : ¬ s = op.slot := fun e => h e.symm
  cases op with
  | start t m => simp only [DirOp.slot] at hs; simp [applyDirOp, DirState.set, hs]
  | stop t p =>
    simp only [DirOp.slot] at hs
    simp only [applyDirOp]
    split <;> simp [DirState.set, hs]
  | run t m p => simp only [DirOp.slot] at hs; simp [applyDirOp, DirState.set, hs]

/-- What a call does to its own slot, and whether it succeeds, depends only on that slot's files. -/
theorem applyDirOp_own (st st' : DirState) (op : DirOp) (h : st op.slot = st' op.slot) :
    (applyDirOp st op).1 op.slot = (applyDirOp st' op).1 op.slot ∧ (applyDirOp st op).2 = (applyDirOp st' op).2 := by
  cases op with
  | start t m => simp only [DirOp.slot] at h; simp [applyDirOp, DirState.set, DirOp.slot, h]
  | stop t p =>
    simp only [DirOp.slot] at h
    simp only [applyDirOp, DirOp.slot, h]
    split <;> simp [DirState.set, h]
  | run t m p => simp only [DirOp.slot] at h; simp [applyDirOp, DirState.set, DirOp.slot, h]

/-- **C12 (interleavings).** Whatever calls for other step names and keys are
interleaved, the two files of a (step name, key) pair end up exactly as if only
the calls for that pair had been made, in the same order. -/
theorem C12_noninterference (s : Slot) : ∀ (ops : List DirOp) (st st' : DirState), st s = st' s →
    (runDirOps st ops).1 s = (runDirOps st' (ops.filter (fun op => op.slot = s))).1 s
  | [], st, st', h => by simpa [runDirOps] using h
  | op :: rest, st, st', h => by
    by_cases hop : op.slot = s
    · have hf : (op :: rest).filter (fun op => op.slot = s) = op :: rest.filter (fun op => op.slot = s) := by
        simp [List.filter_cons, hop]
      rw [hf]
      simp only [runDirOps]
      apply C12_noninterference s rest
      have := (applyDirOp_own st st' op (by rw [hop]; exact h)).1
      rw [hop] at this
      exact this
    · have hf : (op :: rest).filter (fun op => op.slot = s) = rest.filter (fun op => op.slot = s) := by
        simp [List.filter_cons, hop]
      rw [hf]
      simp only [runDirOps]
      apply C12_noninterference s rest
      rw [applyDirOp_other st op s hop]
      exact h

end InToto
