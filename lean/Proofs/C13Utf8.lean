import Proofs.C13
/-!
# The strict incremental UTF-8 decoder does not depend on chunking

Discharges the hypothesis `ChunkIndependent` of `C13_exact` for the decoder the
driver runs (`utf8Decoder`), so that C13 holds for UTF-8 without assumptions
about the codec beyond the model of it (which the correspondence check compares
with CPython's incremental decoder on every schedule).
-/
namespace InToto

/-- Validation of the continuation bytes available so far. -/
def availOk (b0 : Nat) : List Nat → Bool
  | [] => true
  | b1 :: more => secondOk b0 b1 && more.all isCont

theorem availOk_prefix (b0 : Nat) : ∀ (a z : List Nat), availOk b0 (a ++ z) = true → availOk b0 a = true
  | [], _, _ => rfl
  | b1 :: more, z, h => by
    simp only [List.cons_append, availOk, Bool.and_eq_true, List.all_append] at h ⊢
    exact ⟨h.1, h.2.1⟩

/-- One step of `utf8Decode`, with the validation named. -/
theorem utf8Decode_cons (fuel : Nat) (b0 : Nat) (rest : List Nat) :
    utf8Decode (fuel + 1) (b0 :: rest) =
      match utf8Need b0 with
      | none => none
      | some 0 => (utf8Decode fuel rest).map (fun (t, p) => (Char.ofNat b0 :: t, p))
      | some n =>
        if !(availOk b0 (rest.take n)) then none
        else if (rest.take n).length < n then some ([], b0 :: rest)
        else (utf8Decode fuel (rest.drop n)).map
          (fun (t, p) => (Char.ofNat (codePoint (b0 :: rest.take n)) :: t, p)) := by
  rw [utf8Decode]
  cases utf8Need b0 with
  | none => rfl
  | some n =>
    cases n with
    | zero => rfl
    | succ k =>
      simp only []
      cases h : rest.take (k + 1) <;> simp [availOk]

theorem utf8Decode_nil (fuel : Nat) : utf8Decode fuel [] = some ([], []) := by
  cases fuel <;> rfl

/-- The held-back tail is never longer than the input. -/
theorem utf8Decode_pending_le : ∀ (fuel : Nat) (bs : List Nat) (t : Str) (p : List Nat),
    utf8Decode fuel bs = some (t, p) → p.length ≤ bs.length
  | 0, bs, t, p, h => by simp [utf8Decode] at h; rw [← h.2]; exact Nat.le_refl _
  | fuel + 1, [], t, p, h => by simp [utf8Decode] at h; rw [← h.2]; exact Nat.le_refl _
  | fuel + 1, b0 :: rest, t, p, h => by
    rw [utf8Decode_cons] at h
    cases hn : utf8Need b0 with
    | none => simp [hn] at h
    | some n =>
      cases n with
      | zero =>
        simp only [hn, Option.map_eq_some_iff] at h
        obtain ⟨⟨t', p'⟩, h', heq⟩ := h
        simp only [Prod.mk.injEq] at heq
        have := utf8Decode_pending_le fuel rest t' p' h'
        rw [← heq.2]; simp only [List.length_cons]; omega
      | succ k =>
        simp only [hn] at h
        by_cases hv : availOk b0 (rest.take (k + 1)) = true
        · simp only [hv, Bool.not_true, Bool.false_eq_true, if_false] at h
          by_cases hl : (rest.take (k + 1)).length < k + 1
          · simp only [hl, if_true, Option.some.injEq, Prod.mk.injEq] at h
            rw [← h.2]; exact Nat.le_refl _
          · simp only [hl, if_false, Option.map_eq_some_iff] at h
            obtain ⟨⟨t', p'⟩, h', heq⟩ := h
            simp only [Prod.mk.injEq] at heq
            have := utf8Decode_pending_le fuel (rest.drop (k + 1)) t' p' h'
            rw [← heq.2]; simp only [List.length_cons, List.length_drop] at this ⊢; omega
        · simp [hv] at h

/-- Enough fuel is enough: the result does not depend on it. -/
theorem utf8Decode_fuel : ∀ (f1 f2 : Nat) (bs : List Nat), bs.length ≤ f1 → bs.length ≤ f2 →
    utf8Decode f1 bs = utf8Decode f2 bs
  | _, _, [], _, _ => by rw [utf8Decode_nil, utf8Decode_nil]
  | 0, _, _ :: _, h, _ => by simp at h
  | _ + 1, 0, _ :: _, _, h => by simp at h
  | f1 + 1, f2 + 1, b0 :: rest, h1, h2 => by
    simp only [List.length_cons] at h1 h2
    rw [utf8Decode_cons, utf8Decode_cons]
    cases hn : utf8Need b0 with
    | none => rfl
    | some n =>
      cases n with
      | zero =>
        simp only []
        rw [utf8Decode_fuel f1 f2 rest (by omega) (by omega)]
      | succ k =>
        simp only []
        rw [utf8Decode_fuel f1 f2 (rest.drop (k + 1)) (by simp only [List.length_drop]; omega)
          (by simp only [List.length_drop]; omega)]

/-- Decoding `x ++ y` in one go = decoding `x`, then the held-back tail with `y`. -/
theorem utf8Decode_split : ∀ (fuel : Nat) (x y : List Nat) (t : Str) (p : List Nat),
    x.length + y.length ≤ fuel → utf8Decode fuel (x ++ y) = some (t, p) →
    ∃ t1 p1 t2, utf8Decode fuel x = some (t1, p1) ∧ utf8Decode fuel (p1 ++ y) = some (t2, p) ∧ t = t1 ++ t2
  | fuel, [], y, t, p, _, h => ⟨[], [], t, utf8Decode_nil fuel, by simpa using h, rfl⟩
  | 0, _ :: _, _, _, _, hf, _ => by simp at hf
  | fuel + 1, b0 :: xr, y, t, p, hf, h => by
    simp only [List.length_cons] at hf
    rw [List.cons_append, utf8Decode_cons] at h
    rw [utf8Decode_cons]
    cases hn : utf8Need b0 with
    | none => simp [hn] at h
    | some n =>
      cases n with
      | zero =>
        simp only [hn, Option.map_eq_some_iff] at h
        obtain ⟨⟨t', p'⟩, h', heq⟩ := h
        simp only [Prod.mk.injEq] at heq
        obtain ⟨t1, p1, t2, hx, hy, ht⟩ := utf8Decode_split fuel xr y t' p' (by omega) h'
        have hp := utf8Decode_pending_le fuel xr t1 p1 hx
        refine ⟨Char.ofNat b0 :: t1, p1, t2, by simp [hx], ?_, by rw [← heq.1, ht]; rfl⟩
        rw [utf8Decode_fuel (fuel + 1) fuel (p1 ++ y) (by simp only [List.length_append]; omega)
          (by simp only [List.length_append]; omega), hy, heq.2]
      | succ k =>
        simp only [hn] at h ⊢
        by_cases hv : availOk b0 ((xr ++ y).take (k + 1)) = true
        · simp only [hv, Bool.not_true, Bool.false_eq_true, if_false] at h
          by_cases hlen : k + 1 ≤ xr.length
          · -- the sequence is complete inside x
            have htake : (xr ++ y).take (k + 1) = xr.take (k + 1) := by
              rw [List.take_append_of_le_length hlen]
            have hdrop : (xr ++ y).drop (k + 1) = xr.drop (k + 1) ++ y := by
              rw [List.drop_append_of_le_length hlen]
            rw [htake] at h hv
            have hl : ¬ (xr.take (k + 1)).length < k + 1 := by
              simp only [List.length_take]; omega
            simp only [hl, if_false, hdrop, Option.map_eq_some_iff] at h
            obtain ⟨⟨t', p'⟩, h', heq⟩ := h
            simp only [Prod.mk.injEq] at heq
            obtain ⟨t1, p1, t2, hx, hy, ht⟩ := utf8Decode_split fuel (xr.drop (k + 1)) y t' p'
              (by simp only [List.length_drop]; omega) h'
            have hp := utf8Decode_pending_le fuel _ t1 p1 hx
            simp only [List.length_drop] at hp
            refine ⟨Char.ofNat (codePoint (b0 :: xr.take (k + 1))) :: t1, p1, t2, ?_, ?_, by rw [← heq.1, ht]; rfl⟩
            · simp only [hv, Bool.not_true, Bool.false_eq_true, if_false, if_neg hl, hx, Option.map_some]
            · rw [utf8Decode_fuel (fuel + 1) fuel (p1 ++ y) (by simp only [List.length_append]; omega)
                (by simp only [List.length_append]; omega), hy, heq.2]
          · -- the sequence is still incomplete at the end of x: everything from b0 on is held back
            have hxr : xr.take (k + 1) = xr := List.take_of_length_le (by omega)
            have hvx : availOk b0 (xr.take (k + 1)) = true := by
              rw [hxr]
              have : (xr ++ y).take (k + 1) = xr ++ y.take (k + 1 - xr.length) := by
                rw [List.take_append]; rw [List.take_of_length_le (by omega)]
              rw [this] at hv
              exact availOk_prefix b0 xr _ hv
            have hl : (xr.take (k + 1)).length < k + 1 := by rw [hxr]; omega
            refine ⟨[], b0 :: xr, t, by simp only [hvx, Bool.not_true, Bool.false_eq_true, if_false, if_pos hl], ?_, rfl⟩
            rw [List.cons_append, utf8Decode_cons]
            simp only [hn, hv, Bool.not_true, Bool.false_eq_true, if_false]
            exact h
        · simp [hv] at h

/-- **The UTF-8 decoder of the model is chunk independent.** -/
theorem utf8Decoder_chunkIndependent : ChunkIndependent utf8Decoder := by
  intro st st2 a b fin t h
  simp only [utf8Decoder, List.length_append] at h ⊢
  cases hd : utf8Decode (st.length + (a.length + b.length) + 1) (st ++ (a ++ b)) with
  | none => simp [hd] at h
  | some r =>
    obtain ⟨t0, p0⟩ := r
    simp only [hd] at h
    have hd' : utf8Decode (st.length + (a.length + b.length) + 1) ((st ++ a) ++ b) = some (t0, p0) := by
      rw [List.append_assoc]; exact hd
    obtain ⟨t1, p1, t2, hx, hy, ht⟩ := utf8Decode_split _ (st ++ a) b t0 p0
      (by simp only [List.length_append]; omega) hd'
    have hp := utf8Decode_pending_le _ _ t1 p1 hx
    simp only [List.length_append] at hp
    have hx' : utf8Decode (st.length + a.length + 1) (st ++ a) = some (t1, p1) := by
      rw [← hx]
      exact utf8Decode_fuel _ _ _ (by simp only [List.length_append]; omega) (by simp only [List.length_append]; omega)
    have hy' : utf8Decode (p1.length + b.length + 1) (p1 ++ b) = some (t2, p0) := by
      rw [← hy]
      exact utf8Decode_fuel _ _ _ (by simp only [List.length_append]; omega) (by simp only [List.length_append]; omega)
    by_cases hfin : fin = true ∧ p0 ≠ []
    · simp [hfin] at h
    · simp only [hfin, if_false, Option.some.injEq, Prod.mk.injEq] at h
      refine ⟨p1, t1, t2, by simp [hx'], ?_, by rw [← h.2, ht]⟩
      rw [← h.1]
      simp only [hy', hfin, if_false]

/-- **C13 for UTF-8 output, no hypothesis about the codec left.** -/
theorem C13_exact_utf8 (N : Nat) (timeout : Option Int)
    (running : List PollEvent) (last : PollEvent) (code : Int)
    (hrun : ∀ ev ∈ running, ev.status = none ∧ WithinLimit timeout ev)
    (hlast : last.status = some code)
    (stO stE : List Nat) (tOut tErr : Str)
    (hout : utf8Decoder.feed utf8Decoder.init (allOut (running ++ [last])) true = some (stO, tOut))
    (herr : utf8Decoder.feed utf8Decoder.init (allErr (running ++ [last])) true = some (stE, tErr)) :
    runStreamsFrom utf8Decoder N timeout (running ++ [last]) = .returned code (translateNL tOut) (translateNL tErr) :=
  C13_exact utf8Decoder utf8Decoder_chunkIndependent N timeout running last code hrun hlast stO stE tOut tErr hout herr

-- non-vacuity: a two-byte character and a bare CR, whole and split inside the character
example : utf8Decoder.feed [] [0xC3, 0xA9, 0x0D] true = some ([], [Char.ofNat 0xE9, '\r']) := by decide
example : utf8Decoder.feed [] [0xC3] false = some ([0xC3], []) ∧
    utf8Decoder.feed [0xC3] [0xA9, 0x0D] true = some ([], [Char.ofNat 0xE9, '\r']) := by decide

end InToto
