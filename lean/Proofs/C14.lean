import Proofs.C16
/-!
# C14 — traditional and DSSE metadata are interchangeable
-/
namespace InToto

variable (gm : Str → Str → Bool) (w : World)

/-- Two signature lists — one from a traditional file, one from an envelope —
made by the same signers in the same order: equal key ids, ordinary (non-gpg)
shape, and position by position the scheme accepts the one value over the
traditional bytes iff it accepts the other over the envelope bytes, for the
key material in question. -/
def SameSigners (S : Scheme) (material bM bE : Str) : List SigEntry → List SigEntry → Prop
  | [], [] => True
  | a :: as, b :: bs =>
    a.keyid = b.keyid ∧ a.gpgShaped = false ∧ b.gpgShaped = false ∧
    sigValueOk S material bM a.value = sigValueOk S material bE b.value ∧
    SameSigners S material bM bE as bs
  | _, _ => False

theorem find_none_of_not_mem (k : PubKey) (hsub : k.subkeys = []) :
    ∀ (sigs : List SigEntry), some k.keyid ∉ sigs.map (·.keyid) → sigs.find? (sigMatchesKey k) = none := by
  intro sigs
  induction sigs with
  | nil => intro _; rfl
  | cons s rest ih =>
    intro h
    simp only [List.map_cons, List.mem_cons, not_or] at h
    have : sigMatchesKey k s = false := by
      simp only [sigMatchesKey, hsub]
      cases hs : s.keyid with
      | none => rfl
      | some i =>
        have : i ≠ k.keyid := fun he => h.1 (by rw [hs, he])
        simp [this]
    simp [List.find?_cons, this, ih h.2]

theorem any_false_of_not_mem (S : Scheme) (k : PubKey) (b : Str) :
    ∀ (sigs : List SigEntry), some k.keyid ∉ sigs.map (·.keyid) →
      sigs.any (fun s => s.keyid = some k.keyid ∧ sigValueOk S k.material b s.value) = false := by
  intro sigs
  induction sigs with
  | nil => intro _; rfl
  | cons s rest ih =>
    intro h
    simp only [List.map_cons, List.mem_cons, not_or] at h
    have : ¬ (s.keyid = some k.keyid) := fun he => h.1 he.symm
    rw [List.any_cons, ih h.2]
    simp [this]

/-- **C14 (the signature check does not depend on the format).** For a non-gpg
key, signature lists made by the same signers with pairwise distinct key ids give
the same check result in both containers: the traditional check (first signature
carrying the key's id) and the envelope check (any signature carrying it) agree. -/
theorem C14_signature_check_equiv (S : Scheme) (nowSec : Int) (keyJ : JVal) (k : PubKey)
    (hk : readPubKey keyJ = .ok k) (hng : k.gpg = false) (hsub : k.subkeys = []) (bM bE : Str) :
    ∀ (sigsM sigsE : List SigEntry), SameSigners S k.material bM bE sigsM sigsE →
      (sigsM.map (·.keyid)).Nodup →
      metablockVerify S nowSec sigsM (some bM) keyJ = envelopeVerify S sigsE bE keyJ := by
  intro sigsM
  induction sigsM with
  | nil =>
    intro sigsE hs _
    cases sigsE with
    | nil => simp [metablockVerify, envelopeVerify, hk, hng]
    | cons b bs => simp [SameSigners] at hs
  | cons a as ih =>
    intro sigsE hs hnd
    cases sigsE with
    | nil => simp [SameSigners] at hs
    | cons b bs =>
      obtain ⟨hid, hga, hgb, hval, hrest⟩ := hs
      simp only [List.map_cons, List.nodup_cons] at hnd
      by_cases hm : a.keyid = some k.keyid
      · -- this is the one signature of the key: both containers decide on it
        have hmatch : sigMatchesKey k a = true := by simp [sigMatchesKey, hm]
        have hrestE : some k.keyid ∉ bs.map (·.keyid) := by
          have : as.map (·.keyid) = bs.map (·.keyid) := by
            clear ih hnd hval hmatch hm hid hga hgb
            induction as generalizing bs with
            | nil => cases bs with
              | nil => rfl
              | cons => simp [SameSigners] at hrest
            | cons x xs ihx =>
              cases bs with
              | nil => simp [SameSigners] at hrest
              | cons y ys => simp [SameSigners] at hrest; simp [hrest.1, ihx ys hrest.2.2.2.2]
          rw [← this, ← hm]; exact hnd.1
        simp only [metablockVerify, envelopeVerify, hk, hng, List.find?_cons, hmatch, hga, List.any_cons,
          any_false_of_not_mem S k bE bs hrestE, Bool.or_false, Bool.false_eq_true, if_false, hm, ← hid]
        rw [hval]
        by_cases hv : sigValueOk S k.material bE b.value = true <;> simp [hv]
      · -- not this key's signature: skip it in both
        have hmatch : sigMatchesKey k a = false := by
          simp only [sigMatchesKey, hsub]
          cases hs : a.keyid with
          | none => rfl
          | some i =>
            have : i ≠ k.keyid := fun he => hm (by rw [hs, he])
            simp [this]
        have hb : ¬ (b.keyid = some k.keyid) := by rw [← hid]; exact hm
        have := ih bs hrest hnd.2
        simp only [metablockVerify, envelopeVerify, hk, hng, List.find?_cons, hmatch, List.any_cons] at this ⊢
        simp only [hb, false_and, decide_false, Bool.false_or]
        exact this

/-- **C14 (root layout).** Verification does not depend on the container of the
layout: two metadata objects with the same payload and the same signature check
outcomes — e.g. the traditional and the DSSE form produced by the same signers
(`C14_signature_check_equiv`) — give the same verdict, the same summary link and
the same trace of executed commands. -/
theorem C14_layout_format_irrelevant (md md' : Metadata) (keys : List (Str × JVal))
    (params : Option (List (Str × Option Str)))
    (hp : md.getPayload = md'.getPayload)
    (hs : ∀ keyJ, md.verifySignature w.S w.nowSec keyJ = md'.verifySignature w.S w.nowSec keyJ)
    (fuel : Nat) (dir stepName : Str) :
    verify gm w fuel md keys dir params stepName = verify gm w fuel md' keys dir params stepName :=
  C01_evaluates_signed_content gm w md md' keys params hp hs fuel dir stepName

/-- A DSSE envelope's payload is never altered by verification (C16), a
traditional object's may be: the one observable on which the two formats differ
is the caller's object after substitution (known finding D8). -/
theorem C14_envelope_untouched (sigs : List SigEntry) (text : Str) (parsed : Option JVal)
    (keys : List (Str × JVal)) (params : Option (List (Str × Option Str))) :
    callerAfter w (.envelope sigs text parsed) keys params = .envelope sigs text parsed := rfl

end InToto
