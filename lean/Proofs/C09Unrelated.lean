import InToto.Verify
/-!
# C09 / C14 — signature entries of other keys do not matter

Signatures are found by exact key id. Entries placed before the ones that belong
to the verification key — whatever their key id is (a fragment of the key's id,
empty, another key's) and whatever their value — change nothing, in either
format.
-/
namespace InToto

theorem find?_append_of_none {α : Type} (p : α → Bool) : ∀ (pre l : List α), (∀ s ∈ pre, p s = false) →
    (pre ++ l).find? p = l.find? p
  | [], _, _ => rfl
  | a :: pre, l, h => by
    simp only [List.cons_append, List.find?_cons, h a List.mem_cons_self]
    exact find?_append_of_none p pre l (fun s hs => h s (List.mem_cons_of_mem _ hs))

/-- **Traditional format.** Entries that do not carry the key's id (or one of its
subkeys') before the others are ignored. -/
theorem C09_unrelated_signatures_ignored_metablock (S : Scheme) (nowSec : Int) (pre sigs : List SigEntry)
    (bytes : Option Str) (keyJ : JVal) (k : PubKey) (hk : readPubKey keyJ = .ok k)
    (hpre : ∀ s ∈ pre, sigMatchesKey k s = false) :
    metablockVerify S nowSec (pre ++ sigs) bytes keyJ = metablockVerify S nowSec sigs bytes keyJ := by
  unfold metablockVerify
  simp only [hk, find?_append_of_none _ pre sigs hpre]

theorem any_append_of_none {α : Type} (p : α → Bool) (pre l : List α) (h : ∀ s ∈ pre, p s = false) :
    (pre ++ l).any p = l.any p := by
  rw [List.any_append]
  have : pre.any p = false := by
    rw [List.any_eq_false]
    intro s hs
    simp [h s hs]
  simp [this]

/-- **DSSE.** Entries with another key id are ignored. -/
theorem C09_unrelated_signatures_ignored_envelope (S : Scheme) (pre sigs : List SigEntry) (paeBytes : Str)
    (keyJ : JVal) (k : PubKey) (hk : readPubKey keyJ = .ok k)
    (hpre : ∀ s ∈ pre, s.keyid ≠ some k.keyid) :
    envelopeVerify S (pre ++ sigs) paeBytes keyJ = envelopeVerify S sigs paeBytes keyJ := by
  unfold envelopeVerify
  simp only [hk]
  rw [any_append_of_none _ pre sigs]
  intro s hs
  have := hpre s hs
  simp [this]

/-- A key id that is a proper fragment of the key's own (and of none of its
subkeys') does not match it. -/
theorem fragment_does_not_match (k : PubKey) (s : SigEntry) (i : Str) (hs : s.keyid = some i) (hne : i ≠ k.keyid)
    (hsub : (k.subkeys.map (·.1)).contains i = false) : sigMatchesKey k s = false := by
  unfold sigMatchesKey
  rw [hs]
  simp only [Bool.or_eq_false_iff, decide_eq_false_iff_not]
  exact ⟨hne, hsub⟩

end InToto
