import Proofs.Lemmas.Verify
/-!
# C01 — layout authenticity and freshness gate every acceptance

Theorems about `InToto.verify` (model of `in_toto_verify`), for every
signature scheme, world, fuel, key set and metadata.
-/
namespace InToto

variable (gm : Str → Str → Bool) (w : World)

theorem allE_ok_iff {α : Type} (f : α → Except Err Unit) (l : List α) :
    allE f l = .ok () ↔ ∀ x ∈ l, f x = .ok () := by
  induction l with
  | nil => simp [allE]
  | cons a l ih =>
    simp only [allE, List.mem_cons, forall_eq_or_imp]
    cases h : f a with
    | error e => simp
    | ok u => cases u; simp [ih]

/-- What the gate establishes. -/
theorem gate_ok_inv {md : Metadata} {keys : List (Str × JVal)}
    {params : Option (List (Str × Option Str))} {layout : Layout}
    (h : gate w md keys params = .ok layout) :
    verifyMetadataSignatures w md keys = .ok () ∧
    ∃ l0, md.getPayload = .ok (.layout l0) ∧ verifyLayoutExpiration w l0 = .ok () ∧
      substIfAny params l0 = .ok layout := by
  unfold gate at h
  split at h
  · cases h
  · rename_i u hs
    cases u
    split at h
    · cases h
    · cases h
    · rename_i l0 hp
      split at h
      · cases h
      · rename_i u he
        cases u
        split at h
        · cases h
        · rename_i l1 hsub
          split at h
          · cases h
          · cases h
            exact ⟨hs, l0, hp, he, hsub⟩

theorem verifyMetadataSignatures_ok_iff (md : Metadata) (keys : List (Str × JVal)) :
    verifyMetadataSignatures w md keys = .ok () ↔
      checkPublicKeys keys = .ok () ∧ keys ≠ [] ∧
      ∀ kv ∈ keys, md.verifySignature w.S w.nowSec kv.2 = .ok := by
  unfold verifyMetadataSignatures
  cases hc : checkPublicKeys keys with
  | error e => simp
  | ok u =>
    cases u
    by_cases hk : keys = []
    · simp [hk]
    · simp only [hk, if_false, ne_eq, not_false_eq_true, true_and]
      rw [allE_ok_iff]
      constructor
      · intro h kv hkv
        have := h kv hkv
        cases hv : md.verifySignature w.S w.nowSec kv.2 <;> simp [hv, sigCheckToExcept] at this ⊢
      · intro h kv hkv
        simp [h kv hkv, sigCheckToExcept]

theorem verifyLayoutExpiration_ok_iff (l : Layout) :
    verifyLayoutExpiration w l = .ok () ↔
      ∃ t, expiryInstant l.expires = some t ∧ w.nowMicros < t * 1000000 := by
  unfold verifyLayoutExpiration
  cases h : expiryInstant l.expires with
  | none => simp
  | some t =>
    by_cases hle : t * 1000000 ≤ w.nowMicros
    · simp [hle]
    · simp [hle]; omega

/-- **C01 (acceptance requires).** If verification succeeds then the verifier
supplied at least one key; for *every* supplied key the signature check on this
metadata succeeded; the payload that is evaluated is the layout carried by that
very metadata; and the clock is strictly before the layout's expiry instant. -/
theorem C01_accept_requires {fuel : Nat} {md : Metadata} {keys : List (Str × JVal)} {dir : Str}
    {params : Option (List (Str × Option Str))} {stepName : Str} {s : Link}
    (h : (verify gm w fuel md keys dir params stepName).result = .ok s) :
    keys ≠ [] ∧
    (∀ kv ∈ keys, md.verifySignature w.S w.nowSec kv.2 = .ok) ∧
    ∃ l0, md.getPayload = .ok (.layout l0) ∧
      ∃ t, expiryInstant l0.expires = some t ∧ w.nowMicros < t * 1000000 := by
  obtain ⟨n, rfl⟩ := verify_ok_fuel_pos gm w h
  obtain ⟨st⟩ := verify_ok_inv gm w h
  obtain ⟨hs, l0, hp, he, _⟩ := gate_ok_inv w st.hgate
  rw [verifyMetadataSignatures_ok_iff] at hs
  exact ⟨hs.2.1, hs.2.2, l0, hp, (verifyLayoutExpiration_ok_iff w l0).mp he⟩

/-- What a successful signature check means: the metadata carries a signature
entry whose value the scheme accepts, for the material of the given key (or of
one of its subkeys), over exactly `signedBytes` — the canonical bytes of the
payload (traditional) or the PAE of the payload bytes (DSSE). -/
theorem sigcheck_ok_sound (S : Scheme) (nowSec : Int) (md : Metadata) (keyJ : JVal)
    (h : md.verifySignature S nowSec keyJ = .ok) :
    ∃ k, readPubKey keyJ = .ok k ∧ ∃ s ∈ md.sigs, ∃ msg v, md.signedBytes = some msg ∧ s.value = some v ∧
      (S.verify k.material msg v = true ∨
        ∃ sid skJ sk, Dict.get? k.subkeys sid = some skJ ∧ readPubKey skJ = .ok sk ∧ s.keyid = some sid ∧
          S.verify sk.material msg v = true) := by
  cases md with
  | metablock sigs signed =>
    simp only [Metadata.verifySignature, metablockVerify] at h
    split at h
    · cases h
    · rename_i k hk
      refine ⟨k, hk, ?_⟩
      split at h
      · cases h
      · rename_i s hfind
        have hmem : s ∈ sigs := List.mem_of_find?_eq_some hfind
        refine ⟨s, hmem, ?_⟩
        split at h
        · split at h
          · cases h
          · rename_i b hb
            split at h
            · cases h
            · split at h
              · cases h
              · rename_i vk hvk
                split at h
                · cases h
                · split at h
                  · rename_i hv
                    cases hsv : s.value with
                    | none => simp [sigValueOk, hsv] at hv
                    | some v =>
                      refine ⟨b, v, hb, rfl, ?_⟩
                      simp only [sigValueOk, hsv] at hv
                      -- which key verified: the bundle's own key or the subkey named by the signature
                      cases hid : s.keyid with
                      | none => simp only [hid] at hvk; cases hvk; exact .inl hv
                      | some i =>
                        simp only [hid] at hvk
                        cases hsub : Dict.get? k.subkeys i with
                        | none => simp only [hsub] at hvk; cases hvk; exact .inl hv
                        | some skJ =>
                          simp only [hsub] at hvk
                          exact .inr ⟨i, skJ, vk, hsub, hvk, rfl, hv⟩
                  · cases h
        · split at h
          · cases h
          · split at h
            · cases h
            · rename_i b hb
              split at h
              · rename_i hc
                cases hsv : s.value with
                | none => simp [sigValueOk, hsv] at hc
                | some v =>
                  simp only [sigValueOk, hsv] at hc
                  exact ⟨b, v, hb, rfl, .inl hc.2⟩
              · cases h
  | envelope sigs text parsed =>
    simp only [Metadata.verifySignature, envelopeVerify] at h
    split at h
    · cases h
    · rename_i k hk
      refine ⟨k, hk, ?_⟩
      split at h
      · cases h
      · split at h
        · rename_i hany
          rw [List.any_eq_true] at hany
          obtain ⟨s, hs, hc⟩ := hany
          simp only [decide_eq_true_eq] at hc
          cases hsv : s.value with
          | none => simp [sigValueOk, hsv] at hc
          | some v =>
            simp only [sigValueOk, hsv] at hc
            exact ⟨s, hs, _, v, rfl, hsv, .inl hc.2⟩
        · cases h

/-- **C01 (signed content = evaluated content).** Past the gate, verification
depends on the metadata only through its payload and the outcomes of the
signature checks — and (theorem `sigcheck_ok_sound`) those checks are over
`signedBytes`, a function of that payload alone. -/
theorem C01_evaluates_signed_content (md md' : Metadata) (keys : List (Str × JVal))
    (params : Option (List (Str × Option Str)))
    (hp : md.getPayload = md'.getPayload)
    (hs : ∀ keyJ, md.verifySignature w.S w.nowSec keyJ = md'.verifySignature w.S w.nowSec keyJ)
    (fuel : Nat) (dir stepName : Str) :
    verify gm w fuel md keys dir params stepName = verify gm w fuel md' keys dir params stepName := by
  have hg : gate w md keys params = gate w md' keys params := by
    unfold gate verifyMetadataSignatures
    simp only [hp, hs]
  cases fuel with
  | zero => rfl
  | succ n => unfold verify; rw [hg]

/-- The bytes a traditional-format signature covers are the canonical encoding
of the payload's dictionary form, nothing else. -/
theorem signedBytes_metablock (sigs : List SigEntry) (p : Payload) :
    (Metadata.metablock sigs p).signedBytes = canon p.toJ := rfl

/-- **C01 (empty key set).** -/
theorem C01_empty_keys (fuel : Nat) (md : Metadata) (dir : Str)
    (params : Option (List (Str × Option Str))) (stepName : Str) :
    ∀ s, (verify gm w fuel md [] dir params stepName).result ≠ .ok s := by
  intro s h
  exact (C01_accept_requires gm w h).1 rfl

/-- **C01 (a supplied key without a valid signature).** -/
theorem C01_missing_signature (fuel : Nat) (md : Metadata) (keys : List (Str × JVal)) (dir : Str)
    (params : Option (List (Str × Option Str))) (stepName : Str)
    (kv : Str × JVal) (hkv : kv ∈ keys) (hbad : md.verifySignature w.S w.nowSec kv.2 ≠ .ok) :
    ∀ s, (verify gm w fuel md keys dir params stepName).result ≠ .ok s := by
  intro s h
  exact hbad ((C01_accept_requires gm w h).2.1 kv hkv)

/-- **C01 (expiry at or before now).** Includes `now = expiry`. -/
theorem C01_expired (fuel : Nat) (md : Metadata) (keys : List (Str × JVal)) (dir : Str)
    (params : Option (List (Str × Option Str))) (stepName : Str)
    (l0 : Layout) (hp : md.getPayload = .ok (.layout l0))
    (t : Int) (ht : expiryInstant l0.expires = some t) (hexp : t * 1000000 ≤ w.nowMicros) :
    ∀ s, (verify gm w fuel md keys dir params stepName).result ≠ .ok s := by
  intro s h
  obtain ⟨_, _, l1, hp1, t1, ht1, hlt⟩ := C01_accept_requires gm w h
  rw [hp] at hp1
  cases hp1
  rw [ht] at ht1
  cases ht1
  omega

/-- The gate does not look at link metadata: whatever files are present, a
failing gate fails verification (and runs nothing). -/
theorem C01_gate_independent_of_links (w' : World) (hS : w'.S = w.S) (hn : w'.nowMicros = w.nowMicros)
    (hs : w'.nowSec = w.nowSec) (md : Metadata) (keys : List (Str × JVal))
    (params : Option (List (Str × Option Str))) :
    gate w' md keys params = gate w md keys params := by
  unfold gate verifyMetadataSignatures verifyLayoutExpiration
  simp only [hS, hn, hs]

end InToto
