import Proofs.C07
/-!
# C16 — parameter substitution is late, verbatim, single-pass; what it leaves intact
-/
namespace InToto

variable (gm : Str → Str → Bool) (w : World)

/-! ## The placeholder language -/

/-- A field name that the scan reads as it stands. -/
def PlainName (name : Str) : Prop := ∀ c ∈ name, c ≠ '{' ∧ c ≠ '}' ∧ fieldSpecial c = false

theorem fmt_in_field (params : Dict Str Str) (name : Str) (hn : PlainName name) :
    ∀ (rest acc : Str), fmt params (name ++ '}' :: rest) (some acc) =
      match lookupField params (acc.reverse ++ name) with
      | .error e => .error e
      | .ok v => (fmt params rest none).map (v ++ ·) := by
  induction name with
  | nil =>
    intro rest acc
    simp only [List.nil_append, List.append_nil, fmt]
    cases lookupField params acc.reverse <;> rfl
  | cons c cs ih =>
    intro rest acc
    have hc := hn c List.mem_cons_self
    have hcs : PlainName cs := fun d hd => hn d (List.mem_cons_of_mem _ hd)
    have : fmt params ((c :: cs) ++ '}' :: rest) (some acc) = fmt params (cs ++ '}' :: rest) (some (c :: acc)) := by
      simp only [List.cons_append]
      simp [fmt, hc.1, hc.2.1, hc.2.2]
    rw [this, ih hcs]
    simp

/-- **C16 (verbatim, single pass).** A placeholder `{name}` is replaced by the
supplied value exactly as it is, and the scan resumes in the template right
after the closing brace: the value itself is never scanned, so a value that
looks like a placeholder is not expanded again. -/
theorem C16_verbatim (params : Dict Str Str) (name v rest : Str) (hn : PlainName name)
    (hnd : isDigits name = false) (hv : Dict.get? params name = some v) (hne : name.head? ≠ some '{') :
    format params ('{' :: name ++ '}' :: rest) = (format params rest).map (v ++ ·) := by
  unfold format
  have h1 : fmt params ('{' :: (name ++ '}' :: rest)) none = fmt params (name ++ '}' :: rest) (some []) := by
    cases name with
    | nil => simp [isDigits] at hnd
    | cons c cs =>
      have hc : c ≠ '{' := fun h => hne (by rw [h]; rfl)
      simp [fmt, hc]
  have := fmt_in_field params name hn rest []
  simp only [List.cons_append] at h1 ⊢
  rw [h1, this]
  simp [lookupField, hnd, hv]

/-- Literal text is copied. -/
theorem C16_literal (params : Dict Str Str) (c : Char) (rest : Str) (h1 : c ≠ '{') (h2 : c ≠ '}') :
    format params (c :: rest) = (format params rest).map (c :: ·) := by
  unfold format
  simp [fmt, h1, h2]

/-- `{{` and `}}` stand for one brace. -/
theorem C16_escaped_braces (params : Dict Str Str) (rest : Str) :
    format params ('{' :: '{' :: rest) = (format params rest).map ('{' :: ·) ∧
    format params ('}' :: '}' :: rest) = (format params rest).map ('}' :: ·) := by
  unfold format
  exact ⟨by simp [fmt], by simp [fmt]⟩

/-- **C16 (a placeholder without a value fails).** -/
theorem C16_missing_fails (params : Dict Str Str) (name rest : Str) (hn : PlainName name)
    (hnd : isDigits name = false) (hv : Dict.get? params name = none) (hne : name.head? ≠ some '{') :
    format params ('{' :: name ++ '}' :: rest) = .error .keyError := by
  unfold format
  have h1 : fmt params ('{' :: (name ++ '}' :: rest)) none = fmt params (name ++ '}' :: rest) (some []) := by
    cases name with
    | nil => simp [isDigits] at hnd
    | cons c cs =>
      have hc : c ≠ '{' := fun h => hne (by rw [h]; rfl)
      simp [fmt, hc]
  have := fmt_in_field params name hn rest []
  simp only [List.cons_append] at h1 ⊢
  rw [h1, this]
  simp [lookupField, hnd, hv]

/-! ## Substitution in the pipeline -/

/-- **C16 (a failing substitution fails verification, and nothing runs).** A
placeholder with no supplied value, a malformed parameter set, or a malformed
template make `substitute_parameters` raise; then verification fails. -/
theorem C16_subst_error_rejects (fuel : Nat) (md : Metadata) (keys : List (Str × JVal)) (dir : Str)
    (raw : List (Str × Option Str)) (stepName : Str) (l0 : Layout)
    (hp : md.getPayload = .ok (.layout l0)) (e : Err) (l' : Layout)
    (hs : substituteParameters raw l0 = (l', some e)) :
    ∀ s, (verify gm w fuel md keys dir (some raw) stepName).result ≠ .ok s := by
  intro s h
  obtain ⟨n, rfl⟩ := verify_ok_fuel_pos gm w h
  obtain ⟨st⟩ := verify_ok_inv gm w h
  obtain ⟨_, l1, hp1, _, hsub⟩ := gate_ok_inv w st.hgate
  rw [hp] at hp1
  cases hp1
  simp only [substIfAny, hs] at hsub
  cases hsub

/-- A malformed parameter set is rejected before anything is substituted. -/
theorem C16_bad_params_fail (raw : List (Str × Option Str)) (l : Layout) (e : Err)
    (h : checkParams raw = .error e) : substituteParameters raw l = (l, some e) := by
  simp [substituteParameters, h]

/-- **C16 (late).** The signature check and the expiry check are made on the
metadata as supplied — on the unsubstituted content — and substitution is
attempted only after both have succeeded. -/
theorem C16_after_gate {md : Metadata} {keys : List (Str × JVal)} {raw : List (Str × Option Str)}
    {layout : Layout} (h : gate w md keys (some raw) = .ok layout) :
    verifyMetadataSignatures w md keys = .ok () ∧
    ∃ l0, md.getPayload = .ok (.layout l0) ∧ verifyLayoutExpiration w l0 = .ok () ∧
      substituteParameters raw l0 = (layout, none) := by
  obtain ⟨hs, l0, hp, he, hsub⟩ := gate_ok_inv w h
  refine ⟨hs, l0, hp, he, ?_⟩
  simp only [substIfAny] at hsub
  split at hsub
  · cases hsub
  · rename_i l' heq
    cases hsub
    exact heq

/-- **C16 (what is substituted).** Substitution rewrites the rules, the expected
command / the command to run — and nothing else of a step or inspection. -/
theorem C16_covers_step (params : Dict Str Str) (s s' : Step) (h : substStep params s = .ok s') :
    s'.name = s.name ∧ s'.pubkeys = s.pubkeys ∧ s'.threshold = s.threshold ∧
    substRules params s.expectedMaterials = .ok s'.expectedMaterials ∧
    substRules params s.expectedProducts = .ok s'.expectedProducts ∧
    substCmd params s.expectedCommand = .ok s'.expectedCommand := by
  unfold substStep at h
  split at h
  · cases h
  · rename_i m hm
    split at h
    · cases h
    · rename_i p hp
      split at h
      · cases h
      · rename_i c hc
        cases h
        exact ⟨rfl, rfl, rfl, hm, hp, hc⟩

theorem C16_covers_inspection (params : Dict Str Str) (i i' : Inspection) (h : substInspection params i = .ok i') :
    i'.name = i.name ∧
    substRules params i.expectedMaterials = .ok i'.expectedMaterials ∧
    substRules params i.expectedProducts = .ok i'.expectedProducts ∧
    substCmd params i.run = .ok i'.run := by
  unfold substInspection at h
  split at h
  · cases h
  · rename_i m hm
    split at h
    · cases h
    · rename_i p hp
      split at h
      · cases h
      · rename_i c hc
        cases h
        exact ⟨rfl, hm, hp, hc⟩

/-- Substitution never touches keys, expiry or readme. -/
theorem C16_covers_layout (raw : List (Str × Option Str)) (l : Layout) :
    (substituteParameters raw l).1.keys = l.keys ∧ (substituteParameters raw l).1.expires = l.expires ∧
    (substituteParameters raw l).1.readme = l.readme := by
  unfold substituteParameters
  split
  · exact ⟨rfl, rfl, rfl⟩
  · split
    · exact ⟨rfl, rfl, rfl⟩
    · exact ⟨rfl, rfl, rfl⟩

/-! ## The caller's object -/

/-- **C16 (caller's object, full statement).** After any call the caller's
metadata object is what it was before. -/
def C16_caller_unchanged : Prop :=
  ∀ (w : World) (md : Metadata) (keys : List (Str × JVal)) (params : Option (List (Str × Option Str))),
    callerAfter w md keys params = md

/-- **C16 (caller's object, partial — what holds of the code).** The object is
untouched whenever it is a DSSE envelope, or no parameters are given, or the
signature check or the expiry check fails. (For a traditional-format layout that
passes the gate, substitution works on the caller's own payload object: known
finding D8; see `C16_caller_unchanged_refuted`.) -/
theorem C16_caller_unchanged_partial (md : Metadata) (keys : List (Str × JVal))
    (params : Option (List (Str × Option Str))) :
    (∀ sigs text parsed, md = .envelope sigs text parsed → callerAfter w md keys params = md) ∧
    (params = none → callerAfter w md keys params = md) ∧
    ((∃ e, verifyMetadataSignatures w md keys = .error e) → callerAfter w md keys params = md) ∧
    (∀ l0, md.getPayload = .ok (.layout l0) → (∃ e, verifyLayoutExpiration w l0 = .error e) →
      callerAfter w md keys params = md) := by
  refine ⟨?_, ?_, ?_, ?_⟩
  · intro sigs text parsed h; subst h; rfl
  · intro h; subst h; cases md with
    | metablock sigs signed => cases signed <;> rfl
    | envelope => rfl
  · rintro ⟨e, he⟩
    cases md with
    | envelope => rfl
    | metablock sigs signed =>
      cases signed with
      | link => rfl
      | layout l =>
        cases params with
        | none => rfl
        | some raw => simp [callerAfter, he]
  · intro l0 hp ⟨e, he⟩
    cases md with
    | envelope => rfl
    | metablock sigs signed =>
      cases signed with
      | link => rfl
      | layout l =>
        simp only [Metadata.getPayload] at hp
        cases hp
        cases params with
        | none => rfl
        | some raw =>
          simp [callerAfter, he]

/-- When rendering changes nothing, nothing changes. -/
theorem C16_caller_unchanged_identity (sigs : List SigEntry) (l : Layout) (keys : List (Str × JVal))
    (raw : List (Str × Option Str)) (hid : (substituteParameters raw l).1 = l) :
    callerAfter w (.metablock sigs (.layout l)) keys (some raw) = .metablock sigs (.layout l) := by
  simp only [callerAfter]
  split
  · rw [hid]
  · rfl

/-! ### Refutation of the full statement for traditional metadata (known finding D8) -/

private def d8Key : JVal :=
  .obj [(lit "keyid", .str (lit "aa")), (lit "keytype", .str (lit "ed25519")), (lit "scheme", .str (lit "ed25519")),
        (lit "keyval", .obj [(lit "public", .str (lit "00"))])]

private def d8Layout : Layout :=
  { steps := [{ name := some (lit "s"), expectedMaterials := [], expectedProducts := [], pubkeys := [],
                expectedCommand := [.str (lit "{EDITOR}")], threshold := 0 }],
    inspect := [], keys := [], expires := lit "2031-01-01T00:00:00Z", readme := [] }

private def d8World : World :=
  { S := { verify := fun _ _ _ => true }, nowMicros := 0, nowSec := 0, files := [], insp := fun _ => none }

private def d8Md : Metadata :=
  .metablock [{ keyid := some (lit "aa"), gpgShaped := false, value := some (lit "00") }] (.layout d8Layout)

/-- What a caller can observe of its object: the first step's expected command. -/
def firstCommand : Metadata → Option (List (Option Str))
  | .metablock _ (.layout l) =>
    (l.steps.head?).map (fun s => s.expectedCommand.map (fun a => match a with | .str t => some t | _ => none))
  | _ => none

theorem d8_before : firstCommand d8Md = some [some (lit "{EDITOR}")] := by decide

theorem d8_after :
    firstCommand (callerAfter d8World d8Md [(lit "aa", d8Key)] (some [(lit "EDITOR", some (lit "vim"))]))
      = some [some (lit "vim")] := by decide

/-- **C16 (caller's object): the full statement is false of the code.** A
traditional-format layout object that passes the gate is altered by
substitution (the pinned test suite asserts this very mutation, so it is
recorded as known finding D8 rather than repaired). -/
theorem C16_caller_unchanged_refuted : ¬ C16_caller_unchanged := by
  intro h
  have h1 := d8_after
  rw [h d8World d8Md _ _, d8_before] at h1
  exact absurd h1 (by decide)

end InToto
