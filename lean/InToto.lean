import InToto.Basic
import InToto.Rulelib
