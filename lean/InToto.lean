import InToto.Basic
import InToto.Rulelib
import InToto.Glob
import InToto.Rules
import InToto.Json
import InToto.Meta
import InToto.Subst
import InToto.Verify
