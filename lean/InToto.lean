import InToto.Basic
import InToto.Rulelib
import InToto.Glob
import InToto.Rules
