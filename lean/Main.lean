import Lean.Data.Json
import InToto
/-!
# Line-protocol driver

One JSON request per input line, one JSON response per output line.  The
Python harness runs the real implementation on the same requests and diffs.
-/
open Lean InToto

namespace Driver

def toStr (j : Json) : Except String Str :=
  match j with
  | .str s => .ok s.toList
  | _ => .error "expected string"

def ofStr (s : Str) : Json := .str (String.ofList s)

def field (j : Json) (k : String) : Except String Json :=
  match j.getObjVal? k with
  | .ok v => .ok v
  | .error _ => .error s!"missing field {k}"

def fieldD (j : Json) (k : String) (d : Json) : Json :=
  match j.getObjVal? k with
  | .ok v => v
  | .error _ => d

def arr (j : Json) : Except String (List Json) :=
  match j with
  | .arr a => .ok a.toList
  | _ => .error "expected array"

def errJson (e : Err) : Json := Json.mkObj [("err", .str e.name)]
def okJson (j : Json) : Json := Json.mkObj [("ok", j)]

def tokOf (j : Json) : Tok :=
  match j with
  | .str s => .str s.toList
  | _ => .nonStr

def ruleDataJson : RuleData → Json
  | .generic g p => Json.mkObj [("rule_type", ofStr g.keyword), ("pattern", ofStr p)]
  | .match_ p sp dp dt dn => Json.mkObj [("rule_type", .str "match"), ("pattern", ofStr p),
      ("source_prefix", ofStr sp), ("dest_prefix", ofStr dp), ("dest_type", ofStr dt.keyword),
      ("dest_name", ofStr dn)]

def ruleDataOf (j : Json) : Except String RuleData := do
  let ty ← toStr (← field j "rule_type")
  let p ← toStr (← field j "pattern")
  match genericOfKeyword ty with
  | some g => pure (.generic g p)
  | none =>
    let sp ← toStr (← field j "source_prefix")
    let dp ← toStr (← field j "dest_prefix")
    let dt ← toStr (← field j "dest_type")
    let dn ← toStr (← field j "dest_name")
    match destTypeOfKeyword dt with
    | some t => pure (.match_ p sp dp t dn)
    | none => throw "bad dest_type"

def opUnpackRule (req : Json) : Except String Json := do
  match fieldD req "rule" .null with
  | .arr a =>
    match unpackRule (a.toList.map tokOf) with
    | .ok r => pure (okJson (ruleDataJson r))
    | .error e => pure (errJson e)
  | _ => pure (errJson .format)

def opPackRule (req : Json) : Except String Json := do
  -- a dictionary outside the model's domain (e.g. a destination type that is neither materials nor products)
  -- is what `pack_rule` rejects as malformed
  let r ← match ruleDataOf (← field req "data") with
    | .ok r => pure r
    | .error _ => return errJson .format
  match packRule r with
  | .ok out => pure (okJson (.arr (out.map ofStr).toArray))
  | .error e => pure (errJson e)

/-- `[[k, v], ...]` → association list -/
def pairs (j : Json) : Except String (List (Json × Json)) := do
  let xs ← arr j
  xs.mapM (fun x => do
    match x with
    | .arr #[k, v] => pure (k, v)
    | _ => throw "expected [k, v]")

def hashRecOf (j : Json) : Except String HashRec := do
  (← pairs j).mapM (fun (k, v) => do pure ((← toStr k), (← toStr v)))

def artifactsOf (j : Json) : Except String Artifacts := do
  (← pairs j).mapM (fun (k, v) => do pure ((← toStr k), (← hashRecOf v)))

def linkArtsOf (j : Json) : Except String LinkArts := do
  pure { materials := ← artifactsOf (← field j "materials"),
         products := ← artifactsOf (← field j "products") }

def strList (j : Json) : Except String (List Str) := do (← arr j).mapM toStr

def destTypeOf (j : Json) : Except String DestType := do
  match destTypeOfKeyword (← toStr j) with
  | some t => pure t
  | none => throw "bad type"

def sortStrs (l : List Str) : List Str :=
  (l.map String.ofList).mergeSort (fun a b => a ≤ b) |>.map String.toList

def opGlob (req : Json) : Except String Json := do
  let pat ← toStr (← field req "pat")
  let names ← strList (← field req "names")
  let toks := Glob.parse pat
  pure (okJson (.arr (names.map (fun n => Json.bool (Glob.matchToks toks n))).toArray))

def opItemRules (req : Json) : Except String Json := do
  let name ← toStr (← field req "name")
  let ty ← destTypeOf (← field req "type")
  let rules ← (← arr (← field req "rules")).mapM strList
  let links ← (← pairs (← field req "links")).mapM (fun (k, v) => do pure ((← toStr k), (← linkArtsOf v)))
  match verifyItemRules Glob.fnmatch name ty rules links with
  | .ok q => pure (okJson (.arr ((sortStrs q).map ofStr).toArray))
  | .error e => pure (errJson e)

/-- `verify_all_item_rules(items, links)`: the material rules, then the product rules, of every item in turn. -/
def opAllItemRules (req : Json) : Except String Json := do
  let items ← (← arr (← field req "items")).mapM (fun it => do
    let name ← toStr (← field it "name")
    let rm ← (← arr (← field it "materials")).mapM strList
    let rp ← (← arr (← field it "products")).mapM strList
    pure ({ name := name, expectedMaterials := rm, expectedProducts := rp } : RuleItem))
  let links ← (← pairs (← field req "links")).mapM (fun (k, v) => do pure ((← toStr k), (← linkArtsOf v)))
  match verifyAllItemRules Glob.fnmatch links items with
  | .ok _ => pure (okJson (.str "pass"))
  | .error e => pure (errJson e)

/-! ### Tagged JSON transport: `{"s":…}`, `{"i":"123"}`, `{"b":…}`, `null`, `{"f":…}`, `[…]`, `{"o":[[k,v],…]}` -/

partial def jvalOf (j : Json) : Except String JVal :=
  match j with
  | .null => pure .null
  | .arr a => do pure (.arr (← a.toList.mapM jvalOf))
  | .obj _ =>
    match j.getObjVal? "s" with
    | .ok (.str s) => pure (.str s.toList)
    | _ =>
    match j.getObjVal? "i" with
    | .ok (.str s) =>
      match s.toInt? with
      | some n => pure (.int n)
      | none => throw "bad int"
    | _ =>
    match j.getObjVal? "b" with
    | .ok (.bool b) => pure (.bool b)
    | _ =>
    match j.getObjVal? "f" with
    | .ok (.str s) => pure (.float s.toList)
    | _ =>
    match j.getObjVal? "o" with
    | .ok (.arr a) => do
      let kvs ← a.toList.mapM (fun x =>
        match x with
        | .arr #[.str k, v] => do pure (k.toList, ← jvalOf v)
        | _ => throw "bad member")
      pure (.obj kvs)
    | _ => throw "bad tagged value"
  | _ => throw "bad tagged value"

def optField (j : Json) (k : String) : Option Json :=
  match j.getObjVal? k with
  | .ok .null => none
  | .ok v => some v
  | .error _ => none

def sigPairsOf (j : Json) : Except String (List SigEntry) := do
  (← pairs j).mapM (fun (k, v) => do
    pure { keyid := some (← toStr k), gpgShaped := false, value := some (← toStr v) })

def envAuxOf (j : Json) : Except String EnvAux := do
  let text ← toStr (← field j "text")
  let parsed ← match optField j "json" with
    | some pj => do pure (some (← jvalOf (← field pj "v")))
    | none => pure none
  pure { payloadText := text, parsed, sigs := ← sigPairsOf (← field j "sigs") }

def fileContentOf (j : Json) : Except String FileContent :=
  match j with
  | .null => pure none
  | _ => do
    let data ← jvalOf (← field j "data")
    let aux ← match optField j "env" with
      | some e => do pure (some (← envAuxOf e))
      | none => pure none
    pure (some (data, aux))

def inspOutcomeOf (j : Json) : Except String InspOutcome :=
  match j with
  | .str "timeout" => pure .timeout
  | .str "oserror" => pure .oserror
  | _ => do
    let code ← match (← field j "exit") with
      | .str s => match s.toInt? with | some n => pure n | none => throw "bad exit"
      | _ => throw "bad exit"
    pure (.exit code (← artifactsOf (← field j "materials")) (← artifactsOf (← field j "products")))

def paramsOf (j : Json) : Except String (List (Str × Option Str)) := do
  (← pairs j).mapM (fun (k, v) => do
    pure ((← toStr k), match v with | .str s => some s.toList | _ => none))

def worldOf (req : Json) : Except String World := do
  let sigs ← (← arr (← field req "sigs")).mapM (fun x =>
    match x with
    | .arr #[.str v, .str m, .str msg] => pure (v.toList, m.toList, msg.toList)
    | _ => throw "bad sig table entry")
  let files ← (← pairs (← field req "files")).mapM (fun (k, v) => do
    pure ((← toStr k), (← fileContentOf v)))
  let insp ← (← pairs (← field req "insp")).mapM (fun (k, v) => do
    pure ((← strList k), (← inspOutcomeOf v)))
  let toInt (k : String) : Except String Int := do
    match (← field req k) with
    | .str s => match s.toInt? with | some n => pure n | none => throw "bad int"
    | _ => throw "bad int"
  pure { S := { verify := fun material msg v => sigs.contains (v, material, msg) },
         nowMicros := ← toInt "now_us", nowSec := ← toInt "now_s", files,
         insp := fun cmd => (insp.find? (fun p => p.1 = cmd)).map (·.2) }

def jsonOfJVal : JVal → Json
  | .str s => ofStr s
  | .int n => Json.mkObj [("int", .str (toString n))]
  | .bool b => .bool b
  | .null => .null
  | .float r => Json.mkObj [("float", ofStr r)]
  | .arr _ => .str "<arr>"
  | .obj _ => .str "<obj>"

def canonJson (v : JVal) : Json :=
  match canon v with
  | some s => ofStr s
  | none => .null

def resultJson (r : Except Err Link) : Json :=
  match r with
  | .ok l => okJson (canonJson l.toJ)
  | .error e => errJson e

def metadataPayloadJson (md : Metadata) : Json :=
  match md.getPayload with
  | .ok p => canonJson p.toJ
  | .error _ => .null

def opVerify (req : Json) : Except String Json := do
  let w ← worldOf req
  let root ← fileContentOf (← field req "layout")
  let keys ← (← pairs (← field req "keys")).mapM (fun (k, v) => do pure ((← toStr k), (← jvalOf v)))
  let dir ← toStr (← field req "dir")
  let params ← match optField req "params" with
    | some p => do pure (some (← paramsOf p))
    | none => pure none
  let fuel := ((fieldD req "fuel" (.num 8)).getNat?).toOption.getD 8
  let name ← toStr (fieldD req "step_name" (.str ""))
  match root with
  | none => pure (Json.mkObj [("load", errJson .other)])
  | some (data, aux) =>
    match Metadata.fromDict data aux with
    | .error e => pure (Json.mkObj [("load", errJson e)])
    | .ok md =>
      let out := verify Glob.fnmatch w fuel md keys dir params name
      let after := callerAfter w md keys params
      -- do the hypotheses of `honest_chain_verifies` hold for this world, and what does the theorem then predict?
      let honest := match honestCheck Glob.fnmatch w fuel md keys dir params name with
        | none => Json.null
        | some pred => Json.mkObj [("result", resultJson pred.result),
            ("trace", .arr (pred.trace.map (fun c => Json.arr (c.map ofStr).toArray)).toArray)]
      pure (Json.mkObj [("load", .str "ok"), ("result", resultJson out.result), ("honest", honest),
        ("trace", .arr (out.trace.map (fun c => Json.arr (c.map ofStr).toArray)).toArray),
        ("payload_before", metadataPayloadJson md),
        ("payload_after", metadataPayloadJson after)])

/-- `Metadata.load` + `verify_signature(key)` + signable bytes, for C09. -/
def opLoadVerifySig (req : Json) : Except String Json := do
  let w ← worldOf req
  let file ← fileContentOf (← field req "file")
  let key ← jvalOf (← field req "key")
  match file with
  | none => pure (Json.mkObj [("load", errJson .other)])
  | some (data, aux) =>
    match Metadata.fromDict data aux with
    | .error e => pure (Json.mkObj [("load", errJson e)])
    | .ok md =>
      let chk := match md.verifySignature w.S w.nowSec key with
        | .ok => "ok" | .bad => "SignatureVerificationError" | .expired => "KeyExpirationError"
        | .crash e => e.name
      pure (Json.mkObj [("load", .str "ok"), ("check", .str chk),
        ("bytes", match md.signedBytes with | some b => ofStr b | none => .null),
        ("payload", metadataPayloadJson md)])

def opCanon (req : Json) : Except String Json := do
  let v ← jvalOf (← field req "v")
  match canon v with
  | some s => pure (okJson (ofStr s))
  | none => pure (errJson .format)

def opExpiry (req : Json) : Except String Json := do
  let s ← toStr (← field req "s")
  match expiryInstant s with
  | some t => pure (okJson (.str (toString t)))
  | none => pure (errJson .format)

def opFormat (req : Json) : Except String Json := do
  let t ← toStr (← field req "template")
  let raw ← paramsOf (← field req "params")
  match checkParams raw with
  | .error e => pure (errJson e)
  | .ok params =>
    match InToto.format params t with
    | .ok s => pure (okJson (ofStr s))
    | .error e => pure (errJson e)

def opReadPayload (req : Json) : Except String Json := do
  let v ← jvalOf (← field req "v")
  match readPayload .format v with
  | .ok p => pure (okJson (canonJson p.toJ))
  | .error e => pure (errJson e)

partial def nodeOf (j : Json) : Except String Node :=
  match j with
  | .str "x" => pure .dangling
  | _ =>
    let fileParts (a : Json) : Except String (Str × Str × Option Str) := do
      match a with
      | .arr #[d, nd, t] => pure ((← toStr d), (← toStr nd), match t with | .str s => some s.toList | _ => none)
      | _ => throw "bad file node"
    let entries (a : Json) : Except String (List (Str × Node)) := do
      (← pairs a).mapM (fun (k, v) => do pure ((← toStr k), (← nodeOf v)))
    match j.getObjVal? "f" with
    | .ok a => do let (d, nd, t) ← fileParts a; pure (.file d nd t)
    | _ =>
    match j.getObjVal? "lf" with
    | .ok a => do let (d, nd, t) ← fileParts a; pure (.symFile d nd t)
    | _ =>
    match j.getObjVal? "d" with
    | .ok a => do pure (.dir (← entries a))
    | _ =>
    match j.getObjVal? "ld" with
    | .ok a => do pure (.symDir (← entries a))
    | _ => throw "bad node"

def recOptsOf (req : Json) : Except String RecOpts := do
  let excl ← strList (← field req "excl")
  let lstrip ← strList (fieldD req "lstrip" (.arr #[]))
  let b (k : String) : Bool := match fieldD req k (.bool false) with | .bool v => v | _ => false
  pure { excl := fun p => excl.contains p, follow := b "follow", normalize := b "normalize", lstrip }

def recValJson : RecVal → Json
  | .digest d => Json.mkObj [("digest", ofStr d)]
  | .digestOfText t => Json.mkObj [("text", ofStr t)]

def opRecord (req : Json) : Except String Json := do
  let o ← recOptsOf req
  let root ← nodeOf (← field req "root")
  let cwd ← match optField req "cwd" with
    | some c => nodeOf c
    | none => pure root
  let arts ← strList (← field req "artifacts")
  match recordArtifacts o root cwd arts with
  | .ok d => pure (okJson (.arr (d.map (fun p => Json.arr #[ofStr p.1, recValJson p.2])).toArray))
  | .error e => pure (errJson e)

def opNormpath (req : Json) : Except String Json := do
  let ps ← strList (← field req "paths")
  pure (okJson (.arr (ps.map (fun p => ofStr (normpath p))).toArray))

/-- Which of the given file names count as preliminary records of `step` (key id not known up front). -/
def opPrelimSelect (req : Json) : Except String Json := do
  let step ← toStr (← field req "step")
  let files ← strList (← field req "files")
  pure (okJson (.arr ((files.filter (selectsPrelim step)).map ofStr).toArray))

def opMatchProducts (req : Json) : Except String Json := do
  let products ← artifactsOf (← field req "products")
  let localArts ← artifactsOf (← field req "local")
  let (a, b, c) := matchProducts products localArts
  let js (l : List Str) : Json := .arr ((sortStrs l).map ofStr).toArray
  pure (okJson (.arr #[js a, js b, js c]))

def hexVal (c : Char) : Nat :=
  if '0' ≤ c ∧ c ≤ '9' then c.toNat - '0'.toNat
  else if 'a' ≤ c ∧ c ≤ 'f' then c.toNat - 'a'.toNat + 10
  else 0

def bytesOfHex : List Char → List Nat
  | a :: b :: rest => (hexVal a * 16 + hexVal b) :: bytesOfHex rest
  | _ => []

def opStreams (req : Json) : Except String Json := do
  let n := ((fieldD req "N" (.num 8192)).getNat?).toOption.getD 8192
  let timeout : Option Int := match fieldD req "timeout" .null with
    | .null => none
    | j => (j.getInt?).toOption
  let sched ← (← arr (← field req "sched")).mapM (fun e => do
    let out ← toStr (← field e "out")
    let err ← toStr (← field e "err")
    let status : Option Int := match fieldD e "status" .null with
      | .null => none
      | j => (j.getInt?).toOption
    let clock : Int := ((fieldD e "clock" (.num 0)).getInt?).toOption.getD 0
    pure ({ outW := bytesOfHex out, errW := bytesOfHex err, status, clock } : PollEvent))
  match runStreamsFrom utf8Decoder n timeout sched with
  | .returned code out err => pure (Json.mkObj [("returned", .arr #[.str (toString code), ofStr out, ofStr err])])
  | .timedOut => pure (Json.mkObj [("outcome", .str "TimeoutExpired")])
  | .decodeError => pure (Json.mkObj [("outcome", .str "UnicodeDecodeError")])
  | .stillRunning => pure (Json.mkObj [("outcome", .str "stillRunning")])

partial def progOf (j : Json) : Except String Prog :=
  match j with
  | .str "io" => pure (.op .io)
  | .str "ioQuiet" => pure (.op .ioQuiet)
  | .str "skip" => pure .skip
  | _ =>
    match j.getObjVal? "seq" with
    | .ok (.arr a) => do pure (seqs (← a.toList.mapM progOf))
    | _ =>
    match j.getObjVal? "try" with
    | .ok (.arr #[b, f]) => do pure (.tryFinally (← progOf b) (← progOf f))
    | _ =>
    match j.getObjVal? "withCwd" with
    | .ok (.arr #[.str d, b]) => do pure (withCwd d.toList (← progOf b))
    | _ =>
    match j.getObjVal? "withBaseNone" with
    | .ok b => do pure (withBaseNone (← progOf b))
    | _ =>
    match j.getObjVal? "withCaptureFiles" with
    | .ok b => do pure (withCaptureFiles (← progOf b))
    | _ => throw "bad program"

def opEffects (req : Json) : Except String Json := do
  let p ← progOf (← field req "prog")
  let s0 : GState := { cwd := lit "/orig", base := some (lit "setting"), temps := [], savedCwd := [], savedBase := [],
                       savedTemps := [], counter := 0 }
  let faults ← (← arr (← field req "faults")).mapM (fun j => match j.getNat? with | .ok n => pure n | _ => throw "bad fault")
  let results := faults.map (fun k =>
    let r := exec (fun n => n == k) p s0
    Json.mkObj [("fault", .num k), ("raised", .bool r.2), ("cwd_restored", .bool (r.1.cwd = s0.cwd)),
                ("base_restored", .bool (r.1.base = s0.base)), ("temps_restored", .bool (r.1.temps = s0.temps))])
  let clean := exec (fun _ => false) p s0
  pure (Json.mkObj [("ops", .num clean.1.counter), ("results", .arr results.toArray)])

def opStopCrash (req : Json) : Except String Json := do
  let n := ((fieldD req "n" (.num 0)).getNat?).toOption.getD 0
  let p : Prelim := { materials := [], signer := lit "k", intact := true }
  let link : FinalLink := { materials := [], products := [], signer := lit "k" }
  let d0 : WDir := { prelim := .complete p, final := .absent }
  let opName : StopOp → String
    | .readPrelim => "readPrelim" | .readProduct => "readProduct" | .createFinal => "createFinal"
    | .writeFinal => "writeFinal" | .removePrelim => "removePrelim"
  let states := (List.range ((stopOps n).length + 1)).map (fun k =>
    let d := crashAfter link d0 n k
    Json.mkObj [("k", .num k),
      ("prelim", .str (match d.prelim with | .complete _ => "complete" | .absent => "absent" | .partialWrite => "partial")),
      ("final", .str (match d.final with | .complete _ => "complete" | .absent => "absent" | .partialWrite => "partial"))])
  pure (Json.mkObj [("ops", .arr ((stopOps n).map (fun o => Json.str (opName o))).toArray), ("states", .arr states.toArray)])

/-- JSON `null` = absent, string = given. -/
def optStrOf (j : Json) : Except String (Option Str) :=
  match j with
  | .null => pure none
  | .str s => pure (some s.toList)
  | _ => throw "expected string or null"

def optListOf (j : Json) : Except String (Option (List Str)) :=
  match j with
  | .null => pure none
  | .arr _ => do pure (some (← strList j))
  | _ => throw "expected list or null"

def boolOf (j : Json) : Except String Bool :=
  match j with
  | .bool b => pure b
  | _ => throw "expected bool"

def extrasOf (j : Json) : Except String LinkExtras := do
  let command ← strList (fieldD j "command" (.arr #[]))
  let byp ← match fieldD j "byproducts" .null with
    | .null => pure none
    | b => do
      let rv := ((fieldD b "return-value" (.num 0)).getInt?).toOption.getD 0
      pure (some ({ returnValue := rv, stdout := ← toStr (fieldD b "stdout" (.str "")), stderr := ← toStr (fieldD b "stderr" (.str "")) } : Byproducts))
  let env ← optStrOf (fieldD j "environment" .null)
  pure { command := command, byproducts := byp, environment := env }

def extrasJson (e : LinkExtras) : Json :=
  Json.mkObj [("command", .arr (e.command.map ofStr).toArray),
    ("byproducts", match e.byproducts with
      | none => .null
      | some b => Json.mkObj [("return-value", .num b.returnValue), ("stdout", ofStr b.stdout), ("stderr", ofStr b.stderr)]),
    ("environment", match e.environment with | none => .null | some t => ofStr t)]

def digestDictOf (j : Json) : Except String (Dict Str RecVal) := do
  (← pairs j).mapM (fun (k, v) => do pure ((← toStr k), RecVal.digest (← toStr v)))

/-- `in_toto_record_stop` as a function of the preliminary record, the key, the products recorded at
stop and the optional arguments: the final link, or the error class. -/
def opRecordStop (req : Json) : Except String Json := do
  let key ← toStr (← field req "key")
  let products ← digestDictOf (← field req "products")
  let given ← extrasOf (fieldD req "given" (Json.mkObj []))
  let prelim ← match fieldD req "prelim" .null with
    | .null => pure (FState.absent : FState Prelim)
    | .str "partial" => pure FState.partialWrite
    | pj => do
      pure (FState.complete { materials := ← digestDictOf (← field pj "materials"), signer := ← toStr (← field pj "signer"),
                               intact := ← boolOf (← field pj "intact"), extras := ← extrasOf (fieldD pj "extras" (Json.mkObj [])) })
  let prelimOf (pj : Json) : Except String (FState Prelim) :=
    match pj with
    | .null => pure FState.absent
    | .str "partial" => pure FState.partialWrite
    | pj => do
      pure (FState.complete { materials := ← digestDictOf (← field pj "materials"), signer := ← toStr (← field pj "signer"),
                               intact := ← boolOf (← field pj "intact"), extras := ← extrasOf (fieldD pj "extras" (Json.mkObj [])) })
  let dictJson' (x : Dict Str RecVal) : Json := .arr (x.map (fun (k, v) => Json.arr #[ofStr k, recValJson v])).toArray
  -- gpg key-argument forms: the preliminary record is found by globbing ("prelims": every preliminary file of the step)
  if let some ps := optField req "prelims" then
    let prelims ← (← arr ps).mapM prelimOf
    match recordStopGlob key products prelims given with
    | .error e => return errJson e
    | .ok l =>
      return okJson (Json.mkObj [("materials", dictJson' l.materials), ("products", dictJson' l.products), ("signer", ofStr l.signer),
        ("extras", extrasJson l.extras), ("prelim_after", .str "absent")])
  match recordStop key products { prelim := prelim, final := .absent } given with
  | .error e => pure (errJson e)
  | .ok d =>
    match d.final with
    | .complete l =>
      let dictJson (x : Dict Str RecVal) : Json := .arr (x.map (fun (k, v) => Json.arr #[ofStr k, recValJson v])).toArray
      pure (okJson (Json.mkObj [("materials", dictJson l.materials), ("products", dictJson l.products), ("signer", ofStr l.signer),
        ("extras", extrasJson l.extras),
        ("prelim_after", .str (match d.prelim with | .absent => "absent" | .complete _ => "complete" | .partialWrite => "partial"))]))
    | _ => throw "no final link"

/-- `in_toto_run` on two tree states (before / after the command): the link it builds and the file it writes. -/
def opInTotoRun (req : Json) : Except String Json := do
  let o ← recOptsOf req
  let before ← nodeOf (← field req "before")
  let after ← nodeOf (← field req "after")
  let name ← toStr (← field req "name")
  let mats ← strList (← field req "material_list")
  let prods ← strList (← field req "product_list")
  let command ← strList (← field req "command")
  let run ← match fieldD req "run" .null with
    | .null => pure none
    | b => do
      let rv := ((fieldD b "return-value" (.num 0)).getInt?).toOption.getD 0
      pure (some ({ returnValue := rv, stdout := ← toStr (fieldD b "stdout" (.str "")), stderr := ← toStr (fieldD b "stderr" (.str "")) } : Byproducts))
  let streams ← boolOf (fieldD req "record_streams" (.bool false))
  let signer ← optStrOf (fieldD req "signer" .null)
  let mdir ← optStrOf (fieldD req "metadata_directory" .null)
  let dictJson (x : Dict Str RecVal) : Json := .arr (x.map (fun (k, v) => Json.arr #[ofStr k, recValJson v])).toArray
  let linkJson (l : RunLink) : Json := Json.mkObj [("name", ofStr l.name), ("materials", dictJson l.materials),
    ("products", dictJson l.products), ("command", .arr (l.command.map ofStr).toArray),
    ("byproducts", match l.byproducts with
      | none => .null
      | some b => Json.mkObj [("return-value", .num b.returnValue), ("stdout", ofStr b.stdout), ("stderr", ofStr b.stderr)]),
    ("signer", match l.signer with | none => .null | some k => ofStr k)]
  match inTotoRun o name mats prods before after command run streams signer mdir with
  | .error e => pure (errJson e)
  | .ok (l, written) =>
    pure (okJson (Json.mkObj [("link", linkJson l),
      ("written", match written with | none => .null | some (path, l') => Json.mkObj [("path", ofStr path), ("link", linkJson l')])]))

/-- in-toto-sign (signing): key ids of the signatures afterwards and the output path. -/
def opSignOps (req : Json) : Except String Json := do
  let append ← boolOf (← field req "append")
  let present ← strList (← field req "present")
  let given ← strList (← field req "given")
  let output ← optStrOf (fieldD req "output" .null)
  let file ← toStr (← field req "file")
  let kind ← match fieldD req "link_name" .null with
    | .null => pure PayloadKind.layout
    | .str n => pure (PayloadKind.link n.toList)
    | _ => throw "bad link_name"
  let ids := signKeyids append present given
  let path := signOutPath output file kind given.getLast?
  pure (okJson (Json.mkObj [("keyids", .arr (ids.map ofStr).toArray),
    ("path", match path with | none => .null | some p => ofStr p)]))

/-- A sequence of record start / stop / run calls over several (step name, key) pairs in one directory:
per call whether it succeeds, and per slot mentioned the two files at the end. -/
def opDirOps (req : Json) : Except String Json := do
  let opsJ ← arr (← field req "ops")
  let ops ← opsJ.mapM (fun j => do
    let slot : Slot := ((← toStr (← field j "name")), (← toStr (← field j "key")))
    match (← field j "op") with
    | .str "start" => do pure (DirOp.start slot (← digestDictOf (← field j "materials")))
    | .str "stop" => do pure (DirOp.stop slot (← digestDictOf (← field j "products")))
    | .str "run" => do pure (DirOp.run slot (← digestDictOf (← field j "materials")) (← digestDictOf (← field j "products")))
    | _ => throw "bad dir op")
  let r := runDirOps DirState.empty ops
  let slots := dedup (ops.map DirOp.slot)
  let dictJson (x : Dict Str RecVal) : Json := .arr (x.map (fun (k, v) => Json.arr #[ofStr k, recValJson v])).toArray
  let slotJson (s : Slot) : Json :=
    let d := r.1 s
    Json.mkObj [("name", ofStr s.1), ("key", ofStr s.2),
      ("prelim", match d.prelim with
        | .absent => .null
        | .partialWrite => .str "partial"
        | .complete p => Json.mkObj [("materials", dictJson p.materials), ("signer", ofStr p.signer)]),
      ("final", match d.final with
        | .absent => .null
        | .partialWrite => .str "partial"
        | .complete l => Json.mkObj [("materials", dictJson l.materials), ("products", dictJson l.products), ("signer", ofStr l.signer)])]
  pure (okJson (Json.mkObj [("outcomes", .arr (r.2.map Json.bool).toArray), ("slots", .arr (slots.map slotJson).toArray)]))

def opCliStatus (req : Json) : Except String Json := do
  let tool ← match (← field req "tool") with
    | .str "verify" => pure Tool.verify | .str "sign" => pure Tool.sign | .str "sign_verify" => pure Tool.signVerify
    | .str "run" => pure Tool.run | .str "record_start" => pure Tool.recordStart | .str "record_stop" => pure Tool.recordStop
    | .str "mock" => pure Tool.mock | .str "match_products" => pure Tool.matchProducts
    | _ => throw "bad tool"
  let outcome ← match (← field req "outcome") with
    | .str "usage" => pure CliOutcome.usageError | .str "success" => pure CliOutcome.success
    | .str "load" => pure CliOutcome.loadFailure | .str "sig" => pure CliOutcome.sigCheckFailed
    | .str "fail" => pure CliOutcome.libFailure | .str "differ" => pure CliOutcome.differences
    | _ => throw "bad outcome"
  pure (okJson (.num (exitStatus tool outcome)))

def outcomeOf (j : Json) : Except String CliOutcome :=
  match j with
  | .str "usage" => pure CliOutcome.usageError | .str "success" => pure CliOutcome.success
  | .str "load" => pure CliOutcome.loadFailure | .str "sig" => pure CliOutcome.sigCheckFailed
  | .str "fail" => pure CliOutcome.libFailure | .str "differ" => pure CliOutcome.differences
  | _ => throw "bad outcome"

def keyArgsOf (a : Json) : Except String KeyArgs := do
  let gpg ← match (← field a "gpg") with
    | .null => pure GpgArg.absent
    | .bool true => pure GpgArg.flag
    | .str s => pure (GpgArg.value s.toList)
    | _ => throw "bad gpg"
  pure { key := ← optStrOf (← field a "key"), gpg := gpg, signingKey := ← optStrOf (← field a "signing_key") }

/-- The front end's own checks followed by the status: `args` is what argparse left in the
namespace (or `argparse_ok: false`), `work` what the operation itself does once the checks passed. -/
def opCliMain (req : Json) : Except String Json := do
  let work ← outcomeOf (← field req "work")
  let a ← field req "args"
  let ok ← boolOf (← field a "argparse_ok")
  let tool ← toStr (← field req "tool")
  let dummyKeys : KeyArgs := { key := none, gpg := .absent, signingKey := none }
  if tool = lit "run" then
    if !ok then pure (okJson (.num (runStatus { argparseOk := false, keys := dummyKeys, noCommand := false, linkCmd := [] } work)))
    else
      let ra : RunArgs := { argparseOk := true, keys := ← keyArgsOf a, noCommand := ← boolOf (← field a "no_command"),
                            linkCmd := ← strList (← field a "link_cmd") }
      pure (okJson (.num (runStatus ra work)))
  else if tool = lit "record_start" ∨ tool = lit "record_stop" then
    let t := if tool = lit "record_start" then Tool.recordStart else Tool.recordStop
    if !ok then pure (okJson (.num (recordStatus t { argparseOk := false, keys := dummyKeys } work)))
    else pure (okJson (.num (recordStatus t { argparseOk := true, keys := ← keyArgsOf a } work)))
  else if tool = lit "verify" then
    if !ok then pure (okJson (.num (verifyStatus { argparseOk := false, layoutKeys := none, gpg := none, verificationKeys := none } work)))
    else
      let va : VerifyArgs := { argparseOk := true, layoutKeys := ← optListOf (← field a "layout_keys"),
                               gpg := ← optListOf (← field a "gpg"), verificationKeys := ← optListOf (← field a "verification_keys") }
      pure (okJson (.num (verifyStatus va work)))
  else if tool = lit "sign" then
    let file ← match (← field req "file") with
      | .str "unloadable" => pure SignFile.unloadable | .str "link" => pure SignFile.link | .str "layout" => pure SignFile.layout
      | _ => throw "bad file"
    if !ok then
      pure (okJson (.num (signStatus { argparseOk := false, verify := false, append := false, output := none, key := none, gpg := none } file work)))
    else
      let sa : SignArgs := { argparseOk := true, verify := ← boolOf (← field a "verify"), append := ← boolOf (← field a "append"),
                             output := ← optStrOf (← field a "output"), key := ← optListOf (← field a "key"),
                             gpg := ← optListOf (← field a "gpg") }
      pure (okJson (.num (signStatus sa file work)))
  else if tool = lit "mock" then
    pure (okJson (.num (exitStatus .mock (frontOutcome ok work))))
  else if tool = lit "match_products" then
    pure (okJson (.num (exitStatus .matchProducts (frontOutcome ok work))))
  else throw "bad tool"

/-- The library call a recording front end makes for what argparse left in the namespace (`null`: usage error). -/
def opCliCall (req : Json) : Except String Json := do
  let a ← field req "args"
  let tool ← toStr (← field req "tool")
  let oStr : Option Str → Json := fun | none => .null | some s => ofStr s
  let oList : Option (List Str) → Json := fun | none => .null | some l => .arr (l.map ofStr).toArray
  let intOf (j : Json) : Except String Int := match j.getInt? with | .ok i => pure i | .error _ => throw "expected int"
  if tool = lit "match_products" then
    let c := matchCall { link := ← toStr (← field a "link"), paths := ← optListOf (← field a "paths"),
                         exclude := ← optListOf (← field a "exclude"), lstrip := ← optListOf (← field a "lstrip_paths") }
    pure (okJson (Json.mkObj [("link", ofStr c.linkFrom), ("paths", oList c.paths), ("exclude_patterns", oList c.exclude),
                              ("lstrip_paths", oList c.lstrip)]))
  else if tool = lit "verify" then
    let va : VerifyArgs := { argparseOk := true, layoutKeys := ← optListOf (← field a "layout_keys"),
                             gpg := ← optListOf (← field a "gpg"), verificationKeys := ← optListOf (← field a "verification_keys") }
    match verifyCall { args := va, layout := ← toStr (← field a "layout"), linkDir := ← toStr (← field a "link_dir"),
                       inspectTimeout := ← intOf (← field a "inspect_timeout") } with
    | none => pure (okJson .null)
    | some c => pure (okJson (Json.mkObj [("layout", ofStr c.layoutFrom), ("link_dir_path", ofStr c.linkDir),
        ("inspect_timeout", .num c.inspectTimeout),
        ("key_options", .arr (c.keyOptions.map (fun (k, l) => Json.arr #[ofStr k, .arr (l.map ofStr).toArray])).toArray)]))
  else
    let ns : RecNs := {
      stepName := ← toStr (← field a "step_name"), materials := ← optListOf (fieldD a "materials" .null),
      products := ← optListOf (fieldD a "products" .null), linkCmd := ← strList (fieldD a "link_cmd" (.arr #[])),
      noCommand := ← boolOf (fieldD a "no_command" (.bool false)), recordStreams := ← boolOf (fieldD a "record_streams" (.bool false)),
      keys := ← keyArgsOf a, gpgHome := ← optStrOf (fieldD a "gpg_home" .null),
      exclude := ← optListOf (fieldD a "exclude_patterns" .null), basePath := ← optStrOf (fieldD a "base_path" .null),
      lstrip := ← optListOf (fieldD a "lstrip_paths" .null), metadataDirectory := ← optStrOf (fieldD a "metadata_directory" .null),
      useDsse := ← boolOf (fieldD a "use_dsse" (.bool false)), runTimeout := ← intOf (fieldD a "run_timeout" (.num 0)) }
    let call ← if tool = lit "run" then pure (runCall ns) else if tool = lit "record_start" then pure (recordStartCall ns)
               else if tool = lit "record_stop" then pure (recordStopCall ns) else throw "bad tool"
    match call with
    | none => pure (okJson .null)
    | some c =>
      let opt {α} (f : α → Json) : Option α → List (String × Json) → String → List (String × Json) :=
        fun v acc k => match v with | none => acc | some x => (k, f x) :: acc
      let base : List (String × Json) := [("name", ofStr c.name), ("signing_key", oStr c.signingKeyFrom), ("gpg_keyid", oStr c.gpgKeyid),
        ("gpg_use_default", .bool c.gpgUseDefault), ("gpg_home", oStr c.gpgHome), ("exclude_patterns", oList c.exclude),
        ("base_path", oStr c.basePath), ("lstrip_paths", oList c.lstrip), ("signer", oStr c.signerFrom)]
      let l := opt oList c.materials base "material_list"
      let l := opt oList c.products l "product_list"
      let l := opt (fun (x : List Str) => Json.arr (x.map ofStr).toArray) c.command l "link_cmd_args"
      let l := opt Json.bool c.recordStreams l "record_streams"
      let l := opt oStr c.metadataDirectory l "metadata_directory"
      let l := opt Json.bool c.useDsse l "use_dsse"
      let l := opt (fun (i : Int) => Json.num i) c.timeout l "timeout"
      pure (okJson (Json.mkObj l))

/-- `in-toto-sign --verify` with several keys: the exit status given, per key in the order passed, what its check does. -/
def opSignVerifyMany (req : Json) : Except String Json := do
  let results ← (← arr (← field req "results")).mapM outcomeOf
  pure (okJson (.num (exitStatus .signVerify (signVerifyOutcome results))))

def dispatch (op : String) (req : Json) : Except String Json :=
  match op with
  | "ping" => pure (okJson (.str "pong"))
  | "unpack_rule" => opUnpackRule req
  | "pack_rule" => opPackRule req
  | "glob" => opGlob req
  | "item_rules" => opItemRules req
  | "all_item_rules" => opAllItemRules req
  | "verify" => opVerify req
  | "load_verify_sig" => opLoadVerifySig req
  | "canon" => opCanon req
  | "expiry" => opExpiry req
  | "format" => opFormat req
  | "read_payload" => opReadPayload req
  | "record" => opRecord req
  | "normpath" => opNormpath req
  | "prelim_select" => opPrelimSelect req
  | "match_products" => opMatchProducts req
  | "streams" => opStreams req
  | "effects" => opEffects req
  | "stop_crash" => opStopCrash req
  | "cli_status" => opCliStatus req
  | "cli_main" => opCliMain req
  | "cli_call" => opCliCall req
  | "record_stop" => opRecordStop req
  | "in_toto_run" => opInTotoRun req
  | "sign_ops" => opSignOps req
  | "dir_ops" => opDirOps req
  | "sign_verify_many" => opSignVerifyMany req
  | _ => throw s!"unknown op {op}"

def handle (line : String) : String :=
  match Json.parse line with
  | .error e => (Json.mkObj [("fail", .str s!"parse: {e}")]).compress
  | .ok req =>
    match req.getObjVal? "op" with
    | .ok (.str op) =>
      match dispatch op req with
      | .ok j => j.compress
      | .error e => (Json.mkObj [("fail", .str e)]).compress
    | _ => (Json.mkObj [("fail", .str "no op")]).compress

partial def loop (hin hout : IO.FS.Stream) : IO Unit := do
  let line ← hin.getLine
  if line.isEmpty then return ()
  if line.trimAscii.isEmpty then
    loop hin hout
  else
    hout.putStrLn (handle line)
    hout.flush
    loop hin hout

end Driver

def main : IO Unit := do
  let hin ← IO.getStdin
  let hout ← IO.getStdout
  Driver.loop hin hout
  hout.flush
