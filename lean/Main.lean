import Lean.Data.Json
import InToto
/-!
# Line-protocol driver

One JSON request per input line, one JSON response per output line.  The
Python harness runs the real implementation on the same requests and diffs.
-/
open Lean InToto

namespace Driver

def toStr (j : Json) : Except String Str :=
  match j with
  | .str s => .ok s.toList
  | _ => .error "expected string"

def ofStr (s : Str) : Json := .str (String.ofList s)

def field (j : Json) (k : String) : Except String Json :=
  match j.getObjVal? k with
  | .ok v => .ok v
  | .error _ => .error s!"missing field {k}"

def fieldD (j : Json) (k : String) (d : Json) : Json :=
  match j.getObjVal? k with
  | .ok v => v
  | .error _ => d

def arr (j : Json) : Except String (List Json) :=
  match j with
  | .arr a => .ok a.toList
  | _ => .error "expected array"

def errJson (e : Err) : Json := Json.mkObj [("err", .str e.name)]
def okJson (j : Json) : Json := Json.mkObj [("ok", j)]

def tokOf (j : Json) : Tok :=
  match j with
  | .str s => .str s.toList
  | _ => .nonStr

def ruleDataJson : RuleData → Json
  | .generic g p => Json.mkObj [("rule_type", ofStr g.keyword), ("pattern", ofStr p)]
  | .match_ p sp dp dt dn => Json.mkObj [("rule_type", .str "match"), ("pattern", ofStr p),
      ("source_prefix", ofStr sp), ("dest_prefix", ofStr dp), ("dest_type", ofStr dt.keyword),
      ("dest_name", ofStr dn)]

def ruleDataOf (j : Json) : Except String RuleData := do
  let ty ← toStr (← field j "rule_type")
  let p ← toStr (← field j "pattern")
  match genericOfKeyword ty with
  | some g => pure (.generic g p)
  | none =>
    let sp ← toStr (← field j "source_prefix")
    let dp ← toStr (← field j "dest_prefix")
    let dt ← toStr (← field j "dest_type")
    let dn ← toStr (← field j "dest_name")
    match destTypeOfKeyword dt with
    | some t => pure (.match_ p sp dp t dn)
    | none => throw "bad dest_type"

def opUnpackRule (req : Json) : Except String Json := do
  match fieldD req "rule" .null with
  | .arr a =>
    match unpackRule (a.toList.map tokOf) with
    | .ok r => pure (okJson (ruleDataJson r))
    | .error e => pure (errJson e)
  | _ => pure (errJson .format)

def opPackRule (req : Json) : Except String Json := do
  let r ← ruleDataOf (← field req "data")
  match packRule r with
  | .ok out => pure (okJson (.arr (out.map ofStr).toArray))
  | .error e => pure (errJson e)

/-- `[[k, v], ...]` → association list -/
def pairs (j : Json) : Except String (List (Json × Json)) := do
  let xs ← arr j
  xs.mapM (fun x => do
    match x with
    | .arr #[k, v] => pure (k, v)
    | _ => throw "expected [k, v]")

def hashRecOf (j : Json) : Except String HashRec := do
  (← pairs j).mapM (fun (k, v) => do pure ((← toStr k), (← toStr v)))

def artifactsOf (j : Json) : Except String Artifacts := do
  (← pairs j).mapM (fun (k, v) => do pure ((← toStr k), (← hashRecOf v)))

def linkArtsOf (j : Json) : Except String LinkArts := do
  pure { materials := ← artifactsOf (← field j "materials"),
         products := ← artifactsOf (← field j "products") }

def strList (j : Json) : Except String (List Str) := do (← arr j).mapM toStr

def destTypeOf (j : Json) : Except String DestType := do
  match destTypeOfKeyword (← toStr j) with
  | some t => pure t
  | none => throw "bad type"

def sortStrs (l : List Str) : List Str :=
  (l.map String.ofList).mergeSort (fun a b => a ≤ b) |>.map String.toList

def opGlob (req : Json) : Except String Json := do
  let pat ← toStr (← field req "pat")
  let names ← strList (← field req "names")
  let toks := Glob.parse pat
  pure (okJson (.arr (names.map (fun n => Json.bool (Glob.matchToks toks n))).toArray))

def opItemRules (req : Json) : Except String Json := do
  let name ← toStr (← field req "name")
  let ty ← destTypeOf (← field req "type")
  let rules ← (← arr (← field req "rules")).mapM strList
  let links ← (← pairs (← field req "links")).mapM (fun (k, v) => do pure ((← toStr k), (← linkArtsOf v)))
  match verifyItemRules Glob.fnmatch name ty rules links with
  | .ok q => pure (okJson (.arr ((sortStrs q).map ofStr).toArray))
  | .error e => pure (errJson e)

def dispatch (op : String) (req : Json) : Except String Json :=
  match op with
  | "ping" => pure (okJson (.str "pong"))
  | "unpack_rule" => opUnpackRule req
  | "pack_rule" => opPackRule req
  | "glob" => opGlob req
  | "item_rules" => opItemRules req
  | _ => throw s!"unknown op {op}"

def handle (line : String) : String :=
  match Json.parse line with
  | .error e => (Json.mkObj [("fail", .str s!"parse: {e}")]).compress
  | .ok req =>
    match req.getObjVal? "op" with
    | .ok (.str op) =>
      match dispatch op req with
      | .ok j => j.compress
      | .error e => (Json.mkObj [("fail", .str e)]).compress
    | _ => (Json.mkObj [("fail", .str "no op")]).compress

partial def loop (hin hout : IO.FS.Stream) : IO Unit := do
  let line ← hin.getLine
  if line.isEmpty then return ()
  if line.trimAscii.isEmpty then
    loop hin hout
  else
    hout.putStrLn (handle line)
    hout.flush
    loop hin hout

end Driver

def main : IO Unit := do
  let hin ← IO.getStdin
  let hout ← IO.getStdout
  Driver.loop hin hout
  hout.flush
