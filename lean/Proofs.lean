import Proofs.C17
import Proofs.C03
import Proofs.C03Order
