import Proofs.C17
