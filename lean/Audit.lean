import Proofs
/-! `#print axioms` for every property theorem. The trailing comment names the
property the theorem belongs to; `harness/core.py` parses this file. -/
#print axioms InToto.C17_positions  -- C17
#print axioms InToto.C17_total  -- C17
#print axioms InToto.C17_nonstr_rejected  -- C17
#print axioms InToto.C17_roundtrip  -- C17
#print axioms InToto.C17_pack_succeeds_iff  -- C17
#print axioms InToto.C17_case_even  -- C17
#print axioms InToto.C17_case_desttype  -- C17
#print axioms InToto.genericCond_create  -- C03
#print axioms InToto.genericCond_delete  -- C03
#print axioms InToto.genericCond_modify  -- C03
#print axioms InToto.C03_consuming  -- C03
#print axioms InToto.C03_disallow  -- C03
#print axioms InToto.C03_require  -- C03
#print axioms InToto.C03_match_only_if  -- C03
#print axioms InToto.C03_match_if  -- C03
#print axioms InToto.C03_match_missing_link  -- C03
#print axioms InToto.C03_sequence_pass  -- C03
#print axioms InToto.C03_sequence_fail  -- C03
#print axioms InToto.C03_queue_shrinks  -- C03
#print axioms InToto.C03_all_items  -- C03
#print axioms InToto.C03_order_independent  -- C03
#print axioms InToto.C03_order_independent_perm  -- C03
#print axioms InToto.C03_order_independent_item  -- C03
#print axioms InToto.hashEq_perm  -- C03
