import Proofs
/-! `#print axioms` for every property theorem. The trailing comment names the
property the theorem belongs to; `harness/core.py` parses this file. -/
#print axioms InToto.C17_positions  -- C17
#print axioms InToto.C17_total  -- C17
#print axioms InToto.C17_nonstr_rejected  -- C17
#print axioms InToto.C17_roundtrip  -- C17
#print axioms InToto.C17_pack_succeeds_iff  -- C17
#print axioms InToto.C17_case_even  -- C17
#print axioms InToto.C17_case_desttype  -- C17
