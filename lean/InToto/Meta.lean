import InToto.Json
import InToto.Rules
/-!
# Model of the metadata classes: `Link`, `Step`, `Inspection`, `Layout`
(`read` + every `_validate_*`), `attr.asdict`, `Metablock` / `Envelope`
loading (`Metadata.from_dict`), payload access and signable bytes.
-/
namespace InToto

structure Link where
  name : Option Str
  materials : Artifacts
  products : Artifacts
  byproducts : List (Str × JVal)
  command : List JVal
  environment : List (Str × JVal)
  deriving Repr, Inhabited

structure Step where
  name : Option Str
  expectedMaterials : List (List Str)
  expectedProducts : List (List Str)
  pubkeys : List Str
  expectedCommand : List JVal
  threshold : Int
  deriving Repr, Inhabited

structure Inspection where
  name : Option Str
  expectedMaterials : List (List Str)
  expectedProducts : List (List Str)
  run : List JVal
  deriving Repr, Inhabited

structure Layout where
  steps : List Step
  inspect : List Inspection
  keys : List (Str × JVal)
  expires : Str
  readme : Str
  deriving Repr, Inhabited

inductive Payload where
  | link (l : Link)
  | layout (l : Layout)
  deriving Repr, Inhabited

/-! ## Reading -/

/-- `kwargs.get(k, default)` -/
def getD (kvs : List (Str × JVal)) (k : String) (d : JVal) : JVal :=
  (Dict.get? kvs k.toList).getD d

def readName (kvs : List (Str × JVal)) : Except Err (Option Str) :=
  match Dict.get? kvs (lit "name") with
  | none => .ok none
  | some .null => .ok none
  | some (.str s) => .ok (some s)
  | some _ => .error .other   -- names of other JSON types are not modelled

/-- `_check_hash_dict` -/
def readHashRec : JVal → Except Err HashRec
  | .obj kvs => mapE (fun (kv : Str × JVal) =>
      match kv.2 with
      | .str s => if isHex s then .ok (kv.1, s) else .error .format
      | _ => .error .format) kvs
  | _ => .error .format

/-- `_validate_materials` / `_validate_products` -/
def readArtifacts : JVal → Except Err Artifacts
  | .obj kvs => mapE (fun (kv : Str × JVal) => (readHashRec kv.2).map (fun h => (kv.1, h))) kvs
  | _ => .error .format

def readObj : JVal → Except Err (List (Str × JVal))
  | .obj kvs => .ok kvs
  | _ => .error .format

def readArr : JVal → Except Err (List JVal)
  | .arr xs => .ok xs
  | _ => .error .format

/-- `Link.read(data)` -/
def readLink (data : JVal) : Except Err Link :=
  match data with
  | .obj kvs => do
    let name ← readName kvs
    let materials ← readArtifacts (getD kvs "materials" (.obj []))
    let products ← readArtifacts (getD kvs "products" (.obj []))
    let byproducts ← readObj (getD kvs "byproducts" (.obj []))
    let command ← readArr (getD kvs "command" (.arr []))
    let environment ← readObj (getD kvs "environment" (.obj []))
    pure { name, materials, products, byproducts, command, environment }
  | _ => .error .other

def tokOfJ : JVal → Tok
  | .str s => .str s
  | _ => .nonStr

/-- One rule of a step / inspection: a list accepted by `unpack_rule`. -/
def readRule : JVal → Except Err (List Str)
  | .arr toks =>
    match unpackRule (toks.map tokOfJ) with
    | .ok _ => .ok (toks.filterMap (fun t => match t with | .str s => some s | _ => none))
    | .error e => .error e
  | _ => .error .format

/-- `_validate_expected_materials`: a list of rules, each accepted by `unpack_rule`. -/
def readRules : JVal → Except Err (List (List Str))
  | .arr rules => mapE readRule rules
  | _ => .error .format

/-- `_validate_pubkeys`: list of hex strings -/
def readHexList : JVal → Except Err (List Str)
  | .arr xs => mapE (fun x =>
      match x with
      | .str s => if isHex s then .ok s else .error .format
      | _ => .error .format) xs
  | _ => .error .format

def readInt : JVal → Except Err Int
  | .int n => .ok n
  | _ => .error .format

/-- `Step.read(data)` -/
def readStep (data : JVal) : Except Err Step :=
  match data with
  | .obj kvs => do
    let name ← readName kvs
    let expectedMaterials ← readRules (getD kvs "expected_materials" (.arr []))
    let expectedProducts ← readRules (getD kvs "expected_products" (.arr []))
    let pubkeys ← readHexList (getD kvs "pubkeys" (.arr []))
    let expectedCommand ← readArr (getD kvs "expected_command" (.arr []))
    let threshold ← readInt (getD kvs "threshold" (.int 1))
    pure { name, expectedMaterials, expectedProducts, pubkeys, expectedCommand, threshold }
  | _ => .error .other

/-- `Inspection.read(data)` -/
def readInspection (data : JVal) : Except Err Inspection :=
  match data with
  | .obj kvs => do
    let name ← readName kvs
    let expectedMaterials ← readRules (getD kvs "expected_materials" (.arr []))
    let expectedProducts ← readRules (getD kvs "expected_products" (.arr []))
    let run ← readArr (getD kvs "run" (.arr []))
    pure { name, expectedMaterials, expectedProducts, run }
  | _ => .error .other

/-! ### Dates: `_validate_expires` and `iso8601.parse_date` on `YYYY-MM-DDTHH:MM:SSZ` -/

def digitVal (c : Char) : Option Nat :=
  if '0' ≤ c ∧ c ≤ '9' then some (c.toNat - '0'.toNat) else none

def num2 (a b : Char) : Option Nat := do pure ((← digitVal a) * 10 + (← digitVal b))
def num4 (a b c d : Char) : Option Nat := do pure ((← num2 a b) * 100 + (← num2 c d))

def isLeap (y : Nat) : Bool := (y % 4 = 0 ∧ y % 100 ≠ 0) ∨ y % 400 = 0

def daysInMonth (y m : Nat) : Nat :=
  if m = 2 then (if isLeap y then 29 else 28)
  else if m = 4 ∨ m = 6 ∨ m = 9 ∨ m = 11 then 30 else 31

/-- Days since 1970-01-01 of a civil date (proleptic Gregorian). -/
def daysFromCivil (y m d : Nat) : Int :=
  let y' : Int := if m ≤ 2 then (y : Int) - 1 else y
  let era : Int := (if y' ≥ 0 then y' else y' - 399) / 400
  let yoe : Int := y' - era * 400
  let mp : Int := ((m : Int) + 9) % 12
  let doy : Int := (153 * mp + 2) / 5 + (d : Int) - 1
  let doe : Int := yoe * 365 + yoe / 4 - yoe / 100 + doy
  era * 146097 + doe - 719468

/-- The instant (seconds since the epoch, UTC) denoted by a well-formed, valid
expiry string; `none` for anything the layout validator rejects. -/
def expiryInstant (s : Str) : Option Int :=
  match s with
  | [y1, y2, y3, y4, '-', m1, m2, '-', d1, d2, 'T', h1, h2, ':', n1, n2, ':', s1, s2, 'Z'] => do
    let y ← num4 y1 y2 y3 y4
    let m ← num2 m1 m2
    let d ← num2 d1 d2
    let h ← num2 h1 h2
    let n ← num2 n1 n2
    let sec ← num2 s1 s2
    if 1 ≤ y ∧ 1 ≤ m ∧ m ≤ 12 ∧ 1 ≤ d ∧ d ≤ daysInMonth y m ∧ h ≤ 23 ∧ n ≤ 59 ∧ sec ≤ 59 then
      some (daysFromCivil y m d * 86400 + (h * 3600 + n * 60 + sec : Nat))
    else none
  | _ => none

/-! ### Public keys -/

/-- What verification reads of a public key dictionary. -/
structure PubKey where
  keyid : Str
  gpg : Bool
  material : Str
  creation : Option Int
  validity : Option Int
  subkeys : List (Str × JVal)
  deriving Repr, Inhabited

def optStr : Option JVal → Option Str
  | some (.str s) => some s
  | _ => none

def optInt : Option JVal → Option Int
  | some (.int n) => some n
  | _ => none

/-- The key material's identity: canonical rendering of `keyval` (plus, for
non-gpg keys, of the scheme). -/
def keyMaterial (kvs : List (Str × JVal)) : Str :=
  ((canon (getD kvs "keyval" .null)).getD []) ++ '|' :: ((canon (getD kvs "scheme" .null)).getD [])

def hasKey (kvs : List (Str × JVal)) (k : String) : Bool := Dict.contains kvs k.toList

/-- `(keytype, scheme) in KEY_FOR_TYPE_AND_SCHEME` (securesystemslib 0.31), the
non-OpenPGP entries. -/
def supportedKeyType (keytype scheme : Option Str) : Bool :=
  match keytype, scheme with
  | some t, some s =>
    (t = lit "ed25519" && s = lit "ed25519") ||
    ((t = lit "ecdsa" || t = lit "ecdsa-sha2-nistp256") && s = lit "ecdsa-sha2-nistp256") ||
    ((t = lit "ecdsa" || t = lit "ecdsa-sha2-nistp384") && s = lit "ecdsa-sha2-nistp384") ||
    (t = lit "rsa" &&
      [lit "rsa-pkcs1v15-sha224", lit "rsa-pkcs1v15-sha256", lit "rsa-pkcs1v15-sha384", lit "rsa-pkcs1v15-sha512",
       lit "rsassa-pss-sha224", lit "rsassa-pss-sha256", lit "rsassa-pss-sha384", lit "rsassa-pss-sha512"].contains s)
  | _, _ => false

/-- `_check_public_key` + the fields verification uses. gpg-shaped dictionaries
(`type`, `method`, `hashes`, `keyval`) are `GPGKey`s, otherwise `keytype`,
`scheme`, `keyval.public` are required. -/
def readPubKey (j : JVal) : Except Err PubKey :=
  match j with
  | .obj kvs =>
    match Dict.get? kvs (lit "keyid") with
    | some (.str keyid) =>
      if hasKey kvs "type" ∧ hasKey kvs "method" ∧ hasKey kvs "hashes" ∧ hasKey kvs "keyval" then
        .ok { keyid, gpg := true, material := keyMaterial kvs,
              creation := optInt (Dict.get? kvs (lit "creation_time")),
              validity := optInt (Dict.get? kvs (lit "validity_period")),
              subkeys := match Dict.get? kvs (lit "subkeys") with
                | some (.obj sk) => sk
                | _ => [] }
      else if hasKey kvs "keytype" ∧ hasKey kvs "scheme" ∧ hasKey kvs "keyval" then
        if !supportedKeyType (optStr (Dict.get? kvs (lit "keytype"))) (optStr (Dict.get? kvs (lit "scheme")))
        then .error .value
        else
        match (getD kvs "keyval" .null).getKey? (lit "public") with
        | some (.str _) =>
          .ok { keyid, gpg := false, material := keyMaterial kvs, creation := none, validity := none,
                subkeys := [] }
        | _ => .error .value
      else .error .format
    | _ => .error .format
  | _ => .error .format

/-- `_check_public_keys`: key ids are hex strings, values are public keys. -/
def checkPublicKeys (keys : List (Str × JVal)) : Except Err Unit :=
  allE (fun (kv : Str × JVal) =>
    if !isHex kv.1 then .error .format
    else (readPubKey kv.2).map (fun _ => ())) keys

/-- The names of steps and inspections must be pairwise distinct. -/
def namesDistinct : List (Option Str) → Bool
  | [] => true
  | n :: r => !r.contains n && namesDistinct r

/-- `Layout.read(data)` -/
def readLayout (data : JVal) : Except Err Layout :=
  match data with
  | .obj kvs => do
    -- `for step_data in data.get("steps")`: anything that iterates to nothing reads as no steps
    let stepsJ ← match Dict.get? kvs (lit "steps") with
      | some (.arr xs) => pure xs
      | some (.obj []) => pure []
      | some (.str []) => pure []
      | _ => throw .other            -- TypeError: 'NoneType' object is not iterable, …
    let steps ← mapE readStep stepsJ
    let inspJ ← match Dict.get? kvs (lit "inspect") with
      | some (.arr xs) => pure xs
      | some (.obj []) => pure []
      | some (.str []) => pure []
      | _ => throw .other
    let inspect ← mapE readInspection inspJ
    let keys ← readObj (getD kvs "keys" (.obj []))
    checkPublicKeys keys
    let readme ← match getD kvs "readme" (.str []) with
      | .str s => pure s
      | _ => throw .format
    let expires ← match Dict.get? kvs (lit "expires") with
      | some (.str s) =>
        if s = [] then throw .other   -- relative default expiry: depends on the wall clock, not modelled
        else if (expiryInstant s).isSome then pure s else throw .format
      | some .null | none => throw .other
      | some _ => throw .format
    if !namesDistinct (steps.map (·.name) ++ inspect.map (·.name)) then throw .format
    pure { steps, inspect, keys, expires, readme }
  | _ => .error .other

/-! ## `attr.asdict` -/

def hashRecJ (h : HashRec) : JVal := .obj (h.map (fun (k, v) => (k, .str v)))
def artifactsJ (a : Artifacts) : JVal := .obj (a.map (fun (k, v) => (k, hashRecJ v)))
def nameJ : Option Str → JVal
  | some s => .str s
  | none => .null
def rulesJ (rs : List (List Str)) : JVal := .arr (rs.map (fun r => .arr (r.map .str)))

def Link.toJ (l : Link) : JVal :=
  .obj [(lit "_type", .str (lit "link")), (lit "name", nameJ l.name),
        (lit "materials", artifactsJ l.materials), (lit "products", artifactsJ l.products),
        (lit "byproducts", .obj l.byproducts), (lit "command", .arr l.command),
        (lit "environment", .obj l.environment)]

def Step.toJ (s : Step) : JVal :=
  .obj [(lit "_type", .str (lit "step")), (lit "name", nameJ s.name),
        (lit "expected_materials", rulesJ s.expectedMaterials),
        (lit "expected_products", rulesJ s.expectedProducts),
        (lit "pubkeys", .arr (s.pubkeys.map .str)),
        (lit "expected_command", .arr s.expectedCommand),
        (lit "threshold", .int s.threshold)]

def Inspection.toJ (i : Inspection) : JVal :=
  .obj [(lit "_type", .str (lit "inspection")), (lit "name", nameJ i.name),
        (lit "expected_materials", rulesJ i.expectedMaterials),
        (lit "expected_products", rulesJ i.expectedProducts),
        (lit "run", .arr i.run)]

def Layout.toJ (l : Layout) : JVal :=
  .obj [(lit "_type", .str (lit "layout")), (lit "steps", .arr (l.steps.map Step.toJ)),
        (lit "inspect", .arr (l.inspect.map Inspection.toJ)), (lit "keys", .obj l.keys),
        (lit "expires", .str l.expires), (lit "readme", .str l.readme)]

def Payload.toJ : Payload → JVal
  | .link l => l.toJ
  | .layout l => l.toJ

/-- `Signable.signable_bytes` (as text); `none` = `FormatError` (a float in the content). -/
def Payload.signableBytes (p : Payload) : Option Str := canon p.toJ

/-- Dispatch on `_type` (`Metablock.from_dict`, `Envelope.get_payload`). -/
def readPayload (bad : Err) (data : JVal) : Except Err Payload :=
  let r : Except Err Payload :=
    match data.getKey? (lit "_type") with
    | some (.str t) =>
      if t = lit "link" then (readLink data).map .link
      else if t = lit "layout" then (readLayout data).map .layout
      else .error bad
    | _ => .error bad
  match r with
  | .error e => .error e
  | .ok p =>
    -- `validate()` enumerates all members with `inspect.getmembers`, which evaluates the
    -- `signable_bytes` property: content that cannot be canonically encoded (a float)
    -- fails construction with FormatError.
    if p.signableBytes.isSome then .ok p else .error .format

/-! ## Signature containers -/

/-- One entry of `signatures`. `value` is what the signature scheme checks:
`sig` for ordinary signatures, `signature|other_headers` for gpg-shaped ones. -/
structure SigEntry where
  keyid : Option Str
  gpgShaped : Bool
  value : Option Str
  deriving Repr, Inhabited

/-- `_check_signature` + what verification reads. -/
def readSigEntry (j : JVal) : Except Err SigEntry :=
  match j with
  | .obj kvs =>
    if !hasKey kvs "keyid" then .error .format
    else if hasKey kvs "signature" ∧ hasKey kvs "other_headers" then
      .ok { keyid := optStr (Dict.get? kvs (lit "keyid")), gpgShaped := true,
            value := match optStr (Dict.get? kvs (lit "signature")), optStr (Dict.get? kvs (lit "other_headers")) with
              | some a, some b => some (a ++ '|' :: b)
              | _, _ => none }
    else if hasKey kvs "sig" then
      .ok { keyid := optStr (Dict.get? kvs (lit "keyid")), gpgShaped := false,
            value := optStr (Dict.get? kvs (lit "sig")) }
    else .error .format
  | _ => .error .format

/-- Loaded metadata. For an envelope the harness supplies the decoded payload
text and `json.loads` of it (`none` if that raises). -/
inductive Metadata where
  | metablock (sigs : List SigEntry) (signed : Payload)
  | envelope (sigs : List SigEntry) (payloadText : Str) (parsed : Option JVal)
  deriving Repr, Inhabited

def envelopePayloadType : Str := lit "application/vnd.in-toto+json"

/-- Decoded parts of an envelope file (base64 and UTF-8 decoding are done by the
harness): payload text, `json.loads(payload)`, signatures with hex `sig`. -/
structure EnvAux where
  payloadText : Str
  parsed : Option JVal
  sigs : List SigEntry

/-- `Metadata.from_dict(data)`; `aux` = decoded envelope parts (`none` when
base64 decoding fails). -/
def Metadata.fromDict (data : JVal) (aux : Option EnvAux) : Except Err Metadata :=
  match data with
  | .obj kvs =>
    if hasKey kvs "payload" then
      if optStr (Dict.get? kvs (lit "payloadType")) = some envelopePayloadType then
        match aux with
        | some a => .ok (.envelope a.sigs a.payloadText a.parsed)
        | none => .error .other
      else .error .invalidMetadata
    else if hasKey kvs "signed" then do
      let sigsJ ← readArr (getD kvs "signatures" (.arr []))
      let signed ← readPayload .format (getD kvs "signed" (.obj []))
      let sigs ← mapE readSigEntry sigsJ
      pure (.metablock sigs signed)
    else .error .invalidMetadata
  | _ => .error .other

/-- `Metadata.get_payload()` -/
def Metadata.getPayload : Metadata → Except Err Payload
  | .metablock _ signed => .ok signed
  | .envelope _ _ parsed =>
    match parsed with
    | some data => readPayload .invalidMetadata data
    | none => .error .other

def Metadata.sigs : Metadata → List SigEntry
  | .metablock s _ => s
  | .envelope s _ _ => s

end InToto
