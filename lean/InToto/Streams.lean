import InToto.Basic
/-!
# Model of `runlib._subprocess_run_duplicate_streams` and `execute_link`

The child process is a *schedule*: what it has written to its standard output and
standard error by the time of each `poll()`, what that `poll()` returns, and
what the clock shows when the time limit is checked. The parent reads at most
`N` bytes per stream per iteration, decodes them with an incremental decoder
followed by universal-newline translation, and after the child has exited reads
everything that is left.
-/
namespace InToto

/-! ## Universal newlines (`io.IncrementalNewlineDecoder(translate=True)`) -/

/-- `\r\n` and `\r` become `\n`. -/
def translateNL : Str → Str
  | [] => []
  | '\r' :: '\n' :: rest => '\n' :: translateNL rest
  | '\r' :: rest => '\n' :: translateNL rest
  | c :: rest => c :: translateNL rest

/-- One `decode(input, final)` call of the newline decoder: the state is whether
a trailing `\r` is being held back. -/
def nlFeed (pendingCR : Bool) (s : Str) (final : Bool) : Bool × Str :=
  let s1 := if pendingCR ∧ (s ≠ [] ∨ final) then '\r' :: s else s
  let p1 := if pendingCR ∧ (s ≠ [] ∨ final) then false else pendingCR
  if s1.getLast? = some '\r' ∧ !final then (true, translateNL s1.dropLast)
  else (p1, translateNL s1)

/-! ## Incremental byte decoder -/

/-- An incremental byte-to-text decoder (`codecs.getincrementaldecoder(enc)()`):
`feed state bytes final` gives the new state and the decoded text, or `none`
(`UnicodeDecodeError`). -/
structure IncDecoder (σ : Type) where
  init : σ
  feed : σ → List Nat → Bool → Option (σ × Str)

/-- Strict incremental UTF-8: the state is the bytes of an incomplete sequence. -/
def utf8Need (b : Nat) : Option Nat :=
  if b < 0x80 then some 0
  else if 0xC2 ≤ b ∧ b ≤ 0xDF then some 1
  else if 0xE0 ≤ b ∧ b ≤ 0xEF then some 2
  else if 0xF0 ≤ b ∧ b ≤ 0xF4 then some 3
  else none

def isCont (b : Nat) : Bool := 0x80 ≤ b ∧ b ≤ 0xBF

/-- Second-byte restrictions (overlong forms, surrogates, > U+10FFFF). -/
def secondOk (b0 b1 : Nat) : Bool :=
  if b0 = 0xE0 then 0xA0 ≤ b1 ∧ b1 ≤ 0xBF
  else if b0 = 0xED then 0x80 ≤ b1 ∧ b1 ≤ 0x9F
  else if b0 = 0xF0 then 0x90 ≤ b1 ∧ b1 ≤ 0xBF
  else if b0 = 0xF4 then 0x80 ≤ b1 ∧ b1 ≤ 0x8F
  else isCont b1

def codePoint : List Nat → Nat
  | [b0] => b0
  | [b0, b1] => (b0 % 32) * 64 + b1 % 64
  | [b0, b1, b2] => (b0 % 16) * 4096 + (b1 % 64) * 64 + b2 % 64
  | [b0, b1, b2, b3] => (b0 % 8) * 262144 + (b1 % 64) * 4096 + (b2 % 64) * 64 + b3 % 64
  | _ => 0

/-- Decode as many complete characters as possible; returns text and the
incomplete tail, or `none` on an invalid sequence. `fuel` = number of bytes. -/
def utf8Decode : Nat → List Nat → Option (Str × List Nat)
  | 0, bs => some ([], bs)
  | _, [] => some ([], [])
  | fuel + 1, b0 :: rest =>
    match utf8Need b0 with
    | none => none
    | some 0 => (utf8Decode fuel rest).map (fun (t, p) => (Char.ofNat b0 :: t, p))
    | some n =>
      let avail := rest.take n
      -- validate what is available
      if !(match avail with
            | [] => true
            | b1 :: more => secondOk b0 b1 && more.all isCont) then none
      else if avail.length < n then some ([], b0 :: rest)          -- incomplete: hold back
      else (utf8Decode fuel (rest.drop n)).map (fun (t, p) => (Char.ofNat (codePoint (b0 :: avail)) :: t, p))

def utf8Decoder : IncDecoder (List Nat) where
  init := []
  feed := fun pending bytes final =>
    match utf8Decode (pending.length + bytes.length + 1) (pending ++ bytes) with
    | none => none
    | some (t, p) => if final ∧ p ≠ [] then none else some (p, t)

/-! ## One captured stream -/

structure Capture (σ : Type) where
  dstate : σ
  pendingCR : Bool
  pos : Nat                -- read position in the capture file
  text : Str               -- text captured so far

/-- `_read` + `decode` + `+=` for one stream; `file` = everything the child has
written to the capture file so far. `none` = `UnicodeDecodeError`. -/
def Capture.read {σ : Type} (D : IncDecoder σ) (N : Nat) (c : Capture σ) (file : List Nat) (final : Bool) :
    Option (Capture σ) :=
  let chunk := if final then file.drop c.pos else (file.drop c.pos).take N
  match D.feed c.dstate chunk final with
  | none => none
  | some (ds, t) =>
    some { dstate := ds, pendingCR := (nlFeed c.pendingCR t final).1, pos := c.pos + chunk.length,
           text := c.text ++ (nlFeed c.pendingCR t final).2 }

/-! ## The loop -/

/-- What one `poll()` finds: the bytes the child wrote to either stream since the
previous `poll()`, the status `poll()` returns (`none` = still running), and the
clock (seconds since `Popen` returned) at the time-limit check that follows. -/
structure PollEvent where
  outW : List Nat
  errW : List Nat
  status : Option Int
  clock : Int

inductive StreamOutcome where
  | returned (code : Int) (out err : Str)
  | timedOut
  | decodeError
  | stillRunning            -- the schedule ended before the child exited (not a real outcome)
  deriving Repr, DecidableEq

/-- `timeout is not None and time.time() > proc_start_time + timeout` -/
def limitHit (timeout : Option Int) (ev : PollEvent) : Bool :=
  match timeout with
  | some t => decide (ev.clock > t)
  | none => false

/-- `_subprocess_run_duplicate_streams(cmd, timeout)` against a schedule. -/
def runStreams {σ : Type} (D : IncDecoder σ) (N : Nat) (timeout : Option Int) :
    List PollEvent → List Nat → List Nat → Capture σ → Capture σ → StreamOutcome
  | [], _, _, _, _ => .stillRunning
  | ev :: rest, outF, errF, co, ce =>
    let outF := outF ++ ev.outW
    let errF := errF ++ ev.errW
    match ev.status with
    | some code =>
      -- the child has exited: read everything it has written
      match co.read D N outF true, ce.read D N errF true with
      | some co', some ce' => .returned code co'.text ce'.text
      | _, _ => .decodeError
    | none =>
      if limitHit timeout ev then .timedOut
      else
        match co.read D N outF false, ce.read D N errF false with
        | some co', some ce' => runStreams D N timeout rest outF errF co' ce'
        | _, _ => .decodeError

def Capture.init {σ : Type} (D : IncDecoder σ) : Capture σ :=
  { dstate := D.init, pendingCR := false, pos := 0, text := [] }

def runStreamsFrom {σ : Type} (D : IncDecoder σ) (N : Nat) (timeout : Option Int) (sched : List PollEvent) :
    StreamOutcome :=
  runStreams D N timeout sched [] [] (Capture.init D) (Capture.init D)

end InToto
