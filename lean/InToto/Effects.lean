import InToto.Basic
/-!
# Effect skeletons of the library entry points (C15)

A tiny effect language: process-global state is the current working directory,
`settings.ARTIFACT_BASE_PATH` and the set of temporary files the call created.
Every primitive is one audited operation and may be made to fail by a fault
plan. The skeleton of an entry point is a program in this language; `exec` runs
it under a fault plan.
-/
namespace InToto

structure GState where
  cwd : Str
  base : Option Str
  temps : List Nat
  savedCwd : List Str            -- `original_cwd` of the enclosing chdir brackets
  savedBase : List (Option Str)  -- `base_path_backup` of the enclosing settings brackets
  savedTemps : List (List Nat)   -- the temporary files that existed when the enclosing capture bracket began
  counter : Nat                  -- operations performed so far (index into the fault plan)
  deriving Repr, DecidableEq

inductive Op where
  | io                     -- open / read / write / Popen / glob …: raises if the fault plan says so
  | ioQuiet                -- an operation whose failure is swallowed (os.walk's scandir)
  | chdir (d : Str)        -- original_cwd = os.getcwd(); os.chdir(base_path)
  | restoreCwd             -- os.chdir(original_cwd)
  | saveBase               -- base_path_backup = settings.ARTIFACT_BASE_PATH
  | setBase (v : Option Str)
  | restoreBase            -- settings.ARTIFACT_BASE_PATH = base_path_backup
  | markTemps              -- stdout_name = stderr_name = None
  | mkTemp (id : Nat)      -- tempfile.mkstemp()
  | rmTemps                -- os.remove for every capture file this bracket created
  deriving Repr, DecidableEq

inductive Prog where
  | skip
  | op (o : Op)
  | seq (a b : Prog)
  | tryFinally (body fin : Prog)
  deriving Repr

/-- Does operation number `n` fail? -/
abbrev FaultPlan := Nat → Bool

/-- One primitive: new state and whether it raised. Plain assignments
(`saveBase`, `setBase`, `restoreBase`, `markTemps`) cannot fail and are
not counted as operations. The *restoring* operations (`os.chdir(original_cwd)`,
`os.remove(capture file)`) are counted but never fail here: if they fail no
implementation can restore the state through them, and those fault positions
are excluded from the judgement (DESIGN C15). -/
def stepOp (f : FaultPlan) (s : GState) : Op → GState × Bool
  | .io => ({ s with counter := s.counter + 1 }, f s.counter)
  | .ioQuiet => ({ s with counter := s.counter + 1 }, false)
  | .chdir d =>
    if f s.counter then ({ s with counter := s.counter + 1 }, true)
    else ({ s with cwd := d, savedCwd := s.cwd :: s.savedCwd, counter := s.counter + 1 }, false)
  | .restoreCwd =>
    ({ s with cwd := s.savedCwd.headD s.cwd, savedCwd := s.savedCwd.tail, counter := s.counter + 1 }, false)
  | .saveBase => ({ s with savedBase := s.base :: s.savedBase }, false)
  | .setBase v => ({ s with base := v }, false)
  | .restoreBase => ({ s with base := s.savedBase.headD s.base, savedBase := s.savedBase.tail }, false)
  | .mkTemp id =>
    if f s.counter then ({ s with counter := s.counter + 1 }, true)
    else ({ s with temps := id :: s.temps, counter := s.counter + 1 }, false)
  | .markTemps => ({ s with savedTemps := s.temps :: s.savedTemps }, false)
  | .rmTemps =>
    ({ s with temps := s.savedTemps.headD s.temps, savedTemps := s.savedTemps.tail,
              counter := s.counter + (s.temps.length - (s.savedTemps.headD s.temps).length) }, false)

/-- Run a program: final state and whether an exception propagates. -/
def exec (f : FaultPlan) : Prog → GState → GState × Bool
  | .skip, s => (s, false)
  | .op o, s => stepOp f s o
  | .seq a b, s =>
    match exec f a s with
    | (s', true) => (s', true)
    | (s', false) => exec f b s'
  | .tryFinally body fin, s =>
    match exec f body s with
    | (s', raised) =>
      match exec f fin s' with
      | (s'', true) => (s'', true)
      | (s'', false) => (s'', raised)

/-! ## Brackets used by the code -/

def seqs : List Prog → Prog
  | [] => .skip
  | [p] => p
  | p :: rest => .seq p (seqs rest)

/-- `original_cwd = os.getcwd(); os.chdir(d); try: body finally: os.chdir(original_cwd)` -/
def withCwd (d : Str) (body : Prog) : Prog :=
  .seq (.op (.chdir d)) (.tryFinally body (.op .restoreCwd))

/-- `backup = settings.X; settings.X = None; try: body finally: settings.X = backup` -/
def withBaseNone (body : Prog) : Prog :=
  .seq (.op .saveBase) (.seq (.op (.setBase none)) (.tryFinally body (.op .restoreBase)))

/-- `try: mkstemp(); mkstemp(); body finally: remove both` -/
def withCaptureFiles (body : Prog) : Prog :=
  .seq (.op .markTemps) (.tryFinally (.seq (.op (.mkTemp 0)) (.seq (.op (.mkTemp 1)) body)) (.op .rmTemps))

def ios (n : Nat) : Prog := seqs (List.replicate n (.op .io))

/-! ## Skeletons of the entry points

`nQuiet`/`nIo` = number of directory listings / file reads the call performs for
the given tree (taken from the audit trace in the correspondence). -/

/-- `record_artifacts_as_dict` with a base path: chdir bracket around the hashing. -/
def recordSkeleton (base : Option Str) (walk : List Op) : Prog :=
  match base with
  | some d => withCwd d (seqs (walk.map .op))
  | none => seqs (walk.map .op)

/-- `_subprocess_run_duplicate_streams`: capture files bracket around Popen and the reads. -/
def streamsSkeleton (nIo : Nat) : Prog := withCaptureFiles (ios nIo)

/-- `in_toto_run`: record materials; run; record products; write the link. -/
def runSkeleton (base : Option Str) (walk1 walk2 : List Op) (recordStreams : Bool) (nRun nDump : Nat) : Prog :=
  seqs [recordSkeleton base walk1,
        if recordStreams then streamsSkeleton nRun else ios nRun,
        recordSkeleton base walk2,
        ios nDump]

/-- One inspection of `run_all_inspections`: settings bracket around `in_toto_run`. -/
def inspectionSkeleton (walk1 walk2 : List Op) (nRun : Nat) : Prog :=
  withBaseNone (runSkeleton none walk1 walk2 false nRun 0)

end InToto
