import InToto.Meta
/-!
# Model of artifact recording (`runlib.record_artifacts_as_dict`,
`resolver/_resolver.py`) and of `in_toto_match_products`

The file tree is abstract: what `exists / isfile / isdir / os.walk` observe.
A symbolic link is represented by what it resolves to (`symFile`, `symDir`) or
as `dangling`. SHA-256 is not computed in the model: a file node carries its
digest (and its digest after line-ending normalisation); a `dir:` digest is
returned as the text that is hashed. The exclusion predicate is a parameter.
-/
namespace InToto

inductive Node where
  | file (digest ndigest : Str) (text : Option Str)
  | dir (entries : List (Str × Node))
  | symFile (digest ndigest : Str) (text : Option Str)
  | symDir (entries : List (Str × Node))
  | dangling
  deriving Repr, Inhabited

def Node.entries? : Node → Option (List (Str × Node))
  | .dir es => some es
  | .symDir es => some es
  | _ => none

def Node.isFile : Node → Bool
  | .file .. => true
  | .symFile .. => true
  | _ => false

def Node.isDir : Node → Bool
  | .dir .. => true
  | .symDir .. => true
  | _ => false

/-- The digest `_hash(path)` records for a file node. -/
def Node.digest? (normalize : Bool) : Node → Option Str
  | .file d nd _ => some (if normalize then nd else d)
  | .symFile d nd _ => some (if normalize then nd else d)
  | _ => none

def Node.text? : Node → Option Str
  | .file _ _ t => t
  | .symFile _ _ t => t
  | _ => none

/-- Resolve path components from a directory node (symbolic links to
directories are followed, as the operating system does). `..` is not modelled. -/
def lookupComps : List Str → Node → Option Node
  | [], n => some n
  | c :: rest, n =>
    match n.entries? with
    | none => none
    | some es =>
      match es.find? (fun e => e.1 = c) with
      | none => none
      | some e => lookupComps rest e.2

/-- Components of a normalised relative path (`"."` has none). -/
def compsOf (p : Str) : List Str := (splitSlash p).filter (fun c => c ≠ [] ∧ c ≠ ['.'])

/-- The node a (normalised, relative) path denotes under `root`; `none` = does
not exist (or is a dangling link). -/
def resolve (root : Node) (p : Str) : Option Node :=
  match lookupComps (compsOf p) root with
  | some .dangling => none
  | r => r

structure RecOpts where
  excl : Str → Bool            -- GitIgnoreSpec.match_file on a normalised path
  follow : Bool                -- follow_symlink_dirs
  normalize : Bool             -- normalize_line_endings
  lstrip : List Str            -- lstrip_paths

mutual
/-- `os.walk(base, followlinks)` with the `dirs[:]` pruning: the non-directory
entries reached, as (normalised file path, node). -/
def walkNode (o : RecOpts) (base : Str) : Node → List (Str × Node)
  | .dir es => walkEntries o base es
  | .symDir es => walkEntries o base es
  | _ => []
def walkEntries (o : RecOpts) (base : Str) : List (Str × Node) → List (Str × Node)
  | [] => []
  | (name, n) :: rest =>
    (match n with
      | .dir es => if o.excl (normpath (pathJoin base name)) then [] else walkEntries o (pathJoin base name) es
      | .symDir es =>
        if o.excl (normpath (pathJoin base name)) ∨ !o.follow then [] else walkEntries o (pathJoin base name) es
      | other => [(normpath (pathJoin base name), other)])
    ++ walkEntries o base rest
end

/-- `_mangle(path, existing, scheme_prefix)`: strip the first matching prefix,
re-add the scheme prefix, and refuse a name that is already taken when prefix
stripping is active. -/
def stripFirst (lstrip : List Str) (path : Str) : Str :=
  match lstrip.find? (fun pre => startsWith path pre) with
  | some pre => path.drop pre.length
  | none => path

def mangle (o : RecOpts) (scheme : Str) (existing : Dict Str Str) (path : Str) : Except Err Str :=
  let name := scheme ++ stripFirst o.lstrip (backslashToSlash path)
  if o.lstrip ≠ [] ∧ existing.contains name then .error .prefix else .ok name

/-- Record a list of (path, node) candidates: skip excluded ones and anything
that is not a file. -/
def recordFiles (o : RecOpts) (scheme : Str) : List (Str × Node) → Dict Str Str → Except Err (Dict Str Str)
  | [], acc => .ok acc
  | (path, n) :: rest, acc =>
    if o.excl path then recordFiles o scheme rest acc
    else
      match n.digest? o.normalize with
      | none => recordFiles o scheme rest acc            -- broken symlink: skipped
      | some d =>
        match mangle o scheme acc path with
        | .error e => .error e
        | .ok name => recordFiles o scheme rest (Dict.insert acc name d)

def fileScheme : Str := lit "file:"

/-- `FileResolver._hash_artifacts(uris, hashes)` relative to `root` (the base
directory). -/
def hashArtifactsFile (o : RecOpts) (root : Node) : List Str → Dict Str Str → Except Err (Dict Str Str)
  | [], acc => .ok acc
  | uri :: rest, acc =>
    let (path0, scheme) := if startsWith uri fileScheme then (uri.drop fileScheme.length, fileScheme) else (uri, [])
    let path := normpath path0
    if o.excl path then hashArtifactsFile o root rest acc
    else
      match resolve root path with
      | none => hashArtifactsFile o root rest acc        -- does not exist
      | some n =>
        if n.isFile then
          match recordFiles o scheme [(path, n)] acc with
          | .error e => .error e
          | .ok acc' => hashArtifactsFile o root rest acc'
        else
          match recordFiles o scheme (walkNode o path n) acc with
          | .error e => .error e
          | .ok acc' => hashArtifactsFile o root rest acc'

/-- The pairwise check in `FileResolver.__init__`. -/
def lstripOk : List Str → Bool
  | [] => true
  | a :: rest => rest.all (fun b => !(startsWith a b) && !(startsWith b a)) && lstripOk rest

/-- `FileResolver(...)` + `hash_artifacts(uris)` -/
def fileResolver (o : RecOpts) (root : Node) (uris : List Str) : Except Err (Dict Str Str) :=
  if !lstripOk o.lstrip then .error .prefix else hashArtifactsFile o root uris []

/-! ## `dir:` and `ostree:` artifacts -/

/-- The text whose SHA-256 is the digest of a `dir:` artifact:
`"<hash>  <path>\n"` for every recorded file, in code-point order of the paths. -/
def dirLine (p : Str × Str) : Str := p.2 ++ [' ', ' '] ++ p.1 ++ ['\n']

def dirDigestText (fileHashes : Dict Str Str) : Str :=
  ((sortMembers fileHashes).map dirLine).flatten

/-- What a recording maps a name to: the SHA-256 of a file (given), or the
SHA-256 *of this text* (directory), which the harness computes. -/
inductive RecVal where
  | digest (d : Str)
  | digestOfText (t : Str)
  deriving Repr, DecidableEq

def dirScheme : Str := lit "dir:"
def ostreeScheme : Str := lit "ostree:"

/-- `DirectoryResolver.hash_artifacts(uris)`; paths are relative to the
*current directory* `cwd` (the directory resolver ignores `base_path`). -/
def hashArtifactsDir (o : RecOpts) (cwd : Node) : List Str → Dict Str RecVal → Except Err (Dict Str RecVal)
  | [], acc => .ok acc
  | uri :: rest, acc =>
    let path := uri.drop dirScheme.length
    match resolve cwd (normpath path) with
    | none => .error .value
    | some n =>
      if !n.isDir then .error .value
      else
        match hashArtifactsFile { o with lstrip := [] } n [['.']] [] with
        | .error e => .error e
        | .ok fileHashes =>
          let name := dirScheme ++ stripFirst o.lstrip (backslashToSlash path)
          if o.lstrip ≠ [] ∧ acc.contains name then .error .prefix
          else hashArtifactsDir o cwd rest (Dict.insert acc name (.digestOfText (dirDigestText fileHashes)))

def stripNewlines (s : Str) : Str :=
  (s.dropWhile (· = '\n')).reverse.dropWhile (· = '\n') |>.reverse

/-- The commit object an OSTree ref points to: `objects/<c[:2]>/<c[2:]>.commit`
for `c` = the ref file's content without surrounding newlines. -/
def ostreeObjectPath (refContent : Str) : Str :=
  let c := stripNewlines refContent
  lit "objects/" ++ c.take 2 ++ '/' :: c.drop 2 ++ lit ".commit"

/-- `OSTreeResolver.hash_artifacts(uris)` relative to `root` (the base directory). -/
def hashArtifactsOstree (root : Node) : List Str → Dict Str RecVal → Except Err (Dict Str RecVal)
  | [], acc => .ok acc
  | uri :: rest, acc =>
    let path := uri.drop ostreeScheme.length
    match resolve root (normpath (lit "refs/heads/" ++ path)) with
    | none => .error .os
    | some refNode =>
      match refNode.text? with
      | none => .error .os
      | some content =>
        match resolve root (normpath (ostreeObjectPath content)) with
        | none => .error .other                      -- securesystemslib StorageError
        | some obj =>
          match obj.digest? false with
          | none => .error .other
          | some d => hashArtifactsOstree root rest (Dict.insert acc (ostreeScheme ++ path) (.digest d))

inductive Scheme3 where
  | file | dir | ostree
  deriving DecidableEq, Repr

/-- `Resolver.for_uri(uri)` -/
def schemeOf (uri : Str) : Scheme3 :=
  match splitOnColon uri with
  | some s => if s = lit "dir" then .dir else if s = lit "ostree" then .ostree else .file
  | none => .file
where
  splitOnColon (u : Str) : Option Str :=
    if u.contains ':' then some (u.takeWhile (· ≠ ':')) else none

/-- `record_artifacts_as_dict(artifacts, …)`: URIs are grouped by resolver in
order of first appearance, each group is hashed, the results are merged with
`dict.update`. `root` = base directory (for `file:` and `ostree:`), `cwd` = the
process's current directory (for `dir:`). -/
def recordArtifacts (o : RecOpts) (root cwd : Node) (artifacts : List Str) : Except Err (Dict Str RecVal) :=
  if artifacts = [] then .ok []
  else
    let order := dedupFirst (artifacts.map schemeOf)
    order.foldlM (fun acc sch =>
      let uris := artifacts.filter (fun u => schemeOf u = sch)
      match sch with
      | .file => (fileResolver o root uris).map (fun d => Dict.update acc (d.map (fun p => (p.1, RecVal.digest p.2))))
      | .dir => (hashArtifactsDir o cwd uris []).map (Dict.update acc)
      | .ostree => (hashArtifactsOstree root uris []).map (Dict.update acc)) []
where
  dedupFirst (l : List Scheme3) : List Scheme3 :=
    l.foldl (fun acc s => if acc.contains s then acc else acc ++ [s]) []

/-! ## `in_toto_match_products` -/

/-- The three reports: only in the link's products, only on disk, in both with
different hash records. -/
def matchProducts (products localArts : Artifacts) : List Str × List Str × List Str :=
  ( products.keys.filter (fun p => !localArts.contains p),
    localArts.keys.filter (fun p => !products.contains p),
    products.keys.filter (fun p =>
      match products.get? p, localArts.get? p with
      | some a, some b => !hashEq a b
      | _, _ => false) )

end InToto
