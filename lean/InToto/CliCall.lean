import InToto.Cli
/-!
# From the command line to the library call

`main()` of `in-toto-run` and `in-toto-record` hands what `argparse` left in the
namespace to `runlib.in_toto_run` / `in_toto_record_start` / `in_toto_record_stop`.
This file says, argument by argument, which call that is. Key *loading* is outside
(the call is described by the path the key is loaded from).

Everything the recording theorems say about the library entry points reaches a
command-line user through this function; the harness compares it with the
arguments the real `main()` passes (bound to the real signature, defaults applied).
-/
namespace InToto

/-- What `parse_args()` leaves for `in-toto-run` / `in-toto-record`, as far as it reaches the library. -/
structure RecNs where
  stepName : Str
  materials : Option (List Str)          -- `-m`, `None` when absent
  products : Option (List Str)           -- `-p`
  linkCmd : List Str                     -- what follows `--`
  noCommand : Bool                       -- `-x`
  recordStreams : Bool                   -- `-s`
  keys : KeyArgs                         -- `--key` / `--gpg` / `--signing-key`
  gpgHome : Option Str
  exclude : Option (List Str)            -- `--exclude`
  basePath : Option Str                  -- `--base-path`
  lstrip : Option (List Str)             -- `--lstrip-paths`
  metadataDirectory : Option Str         -- `-d`
  useDsse : Bool                         -- `--use-dsse`
  runTimeout : Int                       -- `--run-timeout` (argparse default: the settings value)
  deriving Repr

inductive Entry where
  | run | recordStart | recordStop
  deriving DecidableEq, Repr

/-- The library call: one field per keyword of the entry points; a field an entry point does not have is `none`. -/
structure RecCall where
  entry : Entry
  name : Str
  materials : Option (Option (List Str))      -- run, start: `args.materials` (possibly `None`)
  products : Option (Option (List Str))       -- run, stop
  command : Option (List Str)                 -- run
  recordStreams : Option Bool                 -- run
  signingKeyFrom : Option Str                 -- legacy key loaded from this file
  gpgKeyid : Option Str
  gpgUseDefault : Bool
  gpgHome : Option Str
  exclude : Option (List Str)
  basePath : Option Str
  lstrip : Option (List Str)
  metadataDirectory : Option (Option Str)     -- run, stop
  useDsse : Option Bool                       -- run, start
  timeout : Option Int                        -- run
  signerFrom : Option Str                     -- signer loaded from this PKCS8 file
  deriving Repr

/-- `if args.key:` / `if args.signing_key:` — an empty path counts as absent. -/
def truthyPath (p : Option Str) : Option Str := if truthyStr p then p else none

/-- in-toto-run: `gpg_keyid = args.gpg` unless the bare flag was given. -/
def gpgKeyidRun : GpgArg → Option Str
  | .value s => some s
  | _ => none

/-- in-toto-record: `if not gpg_use_default and args.gpg: gpg_keyid = args.gpg`. -/
def gpgKeyidRecord : GpgArg → Option Str
  | .value (c :: s) => some (c :: s)
  | _ => none

def gpgUseDefault : GpgArg → Bool
  | .flag => true
  | _ => false

/-- in-toto-run. `none`: a usage error, no library call. -/
def runCall (ns : RecNs) : Option RecCall :=
  if !(ns.keys.exactlyOne && (ns.noCommand || !ns.linkCmd.isEmpty)) then none
  else some
    { entry := .run, name := ns.stepName
      materials := some ns.materials, products := some ns.products
      command := some (if ns.noCommand then [] else ns.linkCmd)
      recordStreams := some ns.recordStreams
      signingKeyFrom := truthyPath ns.keys.key
      gpgKeyid := gpgKeyidRun ns.keys.gpg, gpgUseDefault := gpgUseDefault ns.keys.gpg, gpgHome := ns.gpgHome
      exclude := ns.exclude, basePath := ns.basePath, lstrip := ns.lstrip
      metadataDirectory := some ns.metadataDirectory, useDsse := some ns.useDsse
      timeout := some ns.runTimeout
      signerFrom := truthyPath ns.keys.signingKey }

/-- in-toto-record start. -/
def recordStartCall (ns : RecNs) : Option RecCall :=
  if !ns.keys.exactlyOne then none
  else some
    { entry := .recordStart, name := ns.stepName
      materials := some ns.materials, products := none, command := none, recordStreams := none
      signingKeyFrom := truthyPath ns.keys.key
      gpgKeyid := gpgKeyidRecord ns.keys.gpg, gpgUseDefault := gpgUseDefault ns.keys.gpg, gpgHome := ns.gpgHome
      exclude := ns.exclude, basePath := ns.basePath, lstrip := ns.lstrip
      metadataDirectory := none, useDsse := some ns.useDsse, timeout := none
      signerFrom := truthyPath ns.keys.signingKey }

/-- in-toto-record stop. -/
def recordStopCall (ns : RecNs) : Option RecCall :=
  if !ns.keys.exactlyOne then none
  else some
    { entry := .recordStop, name := ns.stepName
      materials := none, products := some ns.products, command := none, recordStreams := none
      signingKeyFrom := truthyPath ns.keys.key
      gpgKeyid := gpgKeyidRecord ns.keys.gpg, gpgUseDefault := gpgUseDefault ns.keys.gpg, gpgHome := ns.gpgHome
      exclude := ns.exclude, basePath := ns.basePath, lstrip := ns.lstrip
      metadataDirectory := some ns.metadataDirectory, useDsse := none, timeout := none
      signerFrom := truthyPath ns.keys.signingKey }

/-- How many ways of signing the call carries (the library tests `gpg_keyid` for truth: `""` is none). -/
def RecCall.signingWays (c : RecCall) : Nat :=
  c.signingKeyFrom.isSome.toNat + (truthyStr c.gpgKeyid || c.gpgUseDefault).toNat + c.signerFrom.isSome.toNat


/-! ## The other front ends -/

/-- in-toto-match-products: `match_products(link, paths=…, exclude_patterns=…, lstrip_paths=…)`. -/
structure MatchNs where
  link : Str
  paths : Option (List Str)
  exclude : Option (List Str)
  lstrip : Option (List Str)
  deriving Repr

structure MatchCall where
  linkFrom : Str
  paths : Option (List Str)
  exclude : Option (List Str)
  lstrip : Option (List Str)
  deriving Repr

def matchCall (ns : MatchNs) : MatchCall :=
  { linkFrom := ns.link, paths := ns.paths, exclude := ns.exclude, lstrip := ns.lstrip }

/-- in-toto-mock: `in_toto_mock(name, link_cmd, use_dsse)`. -/
structure MockNs where
  name : Str
  linkCmd : List Str
  useDsse : Bool
  deriving Repr

/-- in-toto-verify: `in_toto_verify(layout, keys, link_dir, inspect_timeout=…)`; which keys: `verifyKeyIds`. -/
structure VerifyNs where
  args : VerifyArgs
  layout : Str
  linkDir : Str
  inspectTimeout : Int
  deriving Repr

structure VerifyCall where
  layoutFrom : Str
  keyOptions : List (Str × List Str)     -- option name, values, in the order the dictionary is filled
  linkDir : Str
  inspectTimeout : Int
  deriving Repr

/-- `--layout-keys` and `--gpg` are used when present (`is not None`), `--verification-keys` when non-empty. -/
def verifyCall (ns : VerifyNs) : Option VerifyCall :=
  if !ns.args.usageOk then none
  else some
    { layoutFrom := ns.layout
      keyOptions := (match ns.args.layoutKeys with | some l => [(lit "layout_keys", l)] | none => []) ++
                    (match ns.args.gpg with | some l => [(lit "gpg", l)] | none => []) ++
                    (match ns.args.verificationKeys with | some (x :: l) => [(lit "verification_keys", x :: l)] | _ => [])
      linkDir := ns.linkDir, inspectTimeout := ns.inspectTimeout }

end InToto
