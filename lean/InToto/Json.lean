import InToto.Basic
/-!
# JSON values, canonical JSON (`securesystemslib.formats.encode_canonical`), DSSE PAE
-/
namespace InToto

/-- A value as produced by `json.load`. Objects keep their member order
(Python dicts are insertion ordered). -/
inductive JVal where
  | str (s : Str)
  | int (n : Int)
  | bool (b : Bool)
  | null
  | float (repr : Str)
  | arr (xs : List JVal)
  | obj (kvs : List (Str × JVal))
  deriving Repr, Inhabited

namespace JVal

/-- `data.get(k)` on a JSON object. -/
def getKey? : JVal → Str → Option JVal
  | .obj kvs, k => Dict.get? kvs k
  | _, _ => none

def isObj : JVal → Bool | .obj _ => true | _ => false
def isArr : JVal → Bool | .arr _ => true | _ => false
def isStr : JVal → Bool | .str _ => true | _ => false

end JVal

/-! ## Canonical JSON -/

/-- `_canonical_string_encoder` without the surrounding quotes: escape `\` and `"`. -/
def escChar (c : Char) : Str :=
  if c = '\\' then ['\\', '\\'] else if c = '"' then ['\\', '"'] else [c]

def esc : Str → Str
  | [] => []
  | c :: cs => escChar c ++ esc cs

/-- `_canonical_string_encoder` -/
def qstr (s : Str) : Str := '"' :: (esc s ++ ['"'])

/-- Code-point lexicographic `≤` on strings (Python `str` comparison). -/
def strLe : Str → Str → Bool
  | [], _ => true
  | _ :: _, [] => false
  | a :: as, b :: bs => if a.toNat < b.toNat then true else if b.toNat < a.toNat then false else strLe as bs

/-- `sorted(d.items())` for string keys (keys are distinct, so values never compare). -/
def sortMembers {α : Type} (kvs : List (Str × α)) : List (Str × α) :=
  kvs.mergeSort (fun a b => strLe a.1 b.1)

def renderMembers : List (Str × Str) → Str
  | [] => []
  | [(k, v)] => qstr k ++ ':' :: v
  | (k, v) :: y :: r => qstr k ++ ':' :: v ++ ',' :: renderMembers (y :: r)

mutual
/-- `encode_canonical`; `none` is the `FormatError` raised for floats. -/
def canon : JVal → Option Str
  | .str s => some (qstr s)
  | .int n => some (intStr n)
  | .bool true => some (lit "true")
  | .bool false => some (lit "false")
  | .null => some (lit "null")
  | .float _ => none
  | .arr xs => (canonList xs).map (fun rs => '[' :: (joinWith [','] rs ++ [']']))
  | .obj kvs => (canonMembers kvs).map (fun ms => '{' :: (renderMembers (sortMembers ms) ++ ['}']))
def canonList : List JVal → Option (List Str)
  | [] => some []
  | x :: r =>
    match canon x, canonList r with
    | some a, some b => some (a :: b)
    | _, _ => none
def canonMembers : List (Str × JVal) → Option (List (Str × Str))
  | [] => some []
  | (k, v) :: r =>
    match canon v, canonMembers r with
    | some a, some b => some ((k, a) :: b)
    | _, _ => none
end

/-! ## DSSE pre-authentication encoding -/

/-- Length of the UTF-8 encoding. -/
def utf8Len (s : Str) : Nat := (s.map (fun c => c.utf8Size)).sum

/-- `PAE(type, body) = "DSSEv1" SP LEN(type) SP type SP LEN(body) SP body`
(as text; the body is the payload text, lengths are UTF-8 byte lengths). -/
def pae (ty body : Str) : Str :=
  lit "DSSEv1 " ++ natDigits (utf8Len ty) ++ ' ' :: ty ++ ' ' :: natDigits (utf8Len body) ++ ' ' :: body

end InToto
