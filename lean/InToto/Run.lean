import InToto.Record
/-!
# Model of running a step (`in_toto_run`) and of two-phase recording
(`in_toto_record_start` / `in_toto_record_stop`)
-/
namespace InToto

/-! ## `in_toto_run` -/

/-- What `execute_link` reports. -/
structure Byproducts where
  returnValue : Int
  stdout : Str
  stderr : Str
  deriving Repr, DecidableEq

/-- The link `in_toto_run` builds: materials = the recording before the command,
products = the recording after it, the command line, its by-products (absent
when no command is given), and who signed. -/
structure RunLink where
  name : Str
  materials : Dict Str RecVal
  products : Dict Str RecVal
  command : List Str
  byproducts : Option Byproducts
  signer : Option Str
  deriving Repr

/-- File name `in_toto_run` writes the link to (nothing is written without a key). -/
def linkPath (metadataDir : Option Str) (name keyid : Str) : Str :=
  match metadataDir with
  | some d => pathJoin d (name ++ '.' :: trunc8 keyid ++ lit ".link")
  | none => name ++ '.' :: trunc8 keyid ++ lit ".link"

/-- The by-products recorded: none without a command; otherwise the exit status
and — only if requested — the output. -/
def runByproducts (command : List Str) (run : Option Byproducts) (recordStreams : Bool) : Option Byproducts :=
  if command = [] then none
  else run.map (fun b => if recordStreams then b else { b with stdout := [], stderr := [] })

/-- `in_toto_run`: `before` / `after` are the file trees at the two recording
instants, `run` what executing the command reports. Returns the link and the
file written (path, link), if any. -/
def inTotoRun (o : RecOpts) (name : Str) (materialList productList : List Str) (before after : Node)
    (command : List Str) (run : Option Byproducts) (recordStreams : Bool) (signer : Option Str)
    (metadataDir : Option Str) : Except Err (RunLink × Option (Str × RunLink)) :=
  match recordArtifacts o before before materialList with
  | .error e => .error e
  | .ok materials =>
    match recordArtifacts o after after productList with
    | .error e => .error e
    | .ok products =>
      .ok ({ name, materials, products, command, byproducts := runByproducts command run recordStreams, signer },
           signer.map (fun k => (linkPath metadataDir name k,
             { name, materials, products, command, byproducts := runByproducts command run recordStreams, signer })))

/-! ## Two-phase recording: the stop phase as a pure function … -/

/-- The fields of a link besides its artifacts that `in_toto_record_stop` lets the caller set
(library-only arguments): the command, the by-products, the environment (an abstract rendering of the
dictionary; `none` = empty). -/
structure LinkExtras where
  command : List Str
  byproducts : Option Byproducts
  environment : Option Str
  deriving Repr, DecidableEq

def LinkExtras.empty : LinkExtras := { command := [], byproducts := none, environment := none }

/-- `if command: link.command = command`, likewise `byproducts`, `environment`: an argument that is
given (truthy) replaces what the preliminary record carries, otherwise that is kept. -/
def LinkExtras.override (fromStart given : LinkExtras) : LinkExtras :=
  { command := if given.command = [] then fromStart.command else given.command
    byproducts := match given.byproducts with
      | some b => some b
      | none => fromStart.byproducts
    environment := match given.environment with
      | some e => some e
      | none => fromStart.environment }

/-- A preliminary record on disk: the materials captured at start, the key id it
was signed with, whether it is unaltered (signature still valid), and the other
fields as recorded at start. -/
structure Prelim where
  materials : Dict Str RecVal
  signer : Str
  intact : Bool
  extras : LinkExtras := LinkExtras.empty
  deriving Repr, DecidableEq

structure FinalLink where
  materials : Dict Str RecVal
  products : Dict Str RecVal
  signer : Str
  extras : LinkExtras := LinkExtras.empty
  deriving Repr, DecidableEq

/-- The link the stop phase builds from the preliminary record. -/
def finalOf (p : Prelim) (products : Dict Str RecVal) (key : Str) (given : LinkExtras) : FinalLink :=
  { materials := p.materials, products := products, signer := key, extras := p.extras.override given }

/-- A file: absent, completely written, or partially written (a crash inside `write`). -/
inductive FState (α : Type) where
  | absent
  | complete (a : α)
  | partialWrite
  deriving Repr, DecidableEq

/-- The two files of one (step name, key id) pair. -/
structure WDir where
  prelim : FState Prelim
  final : FState FinalLink
  deriving Repr, DecidableEq

/-- `in_toto_record_stop` with key `key`, `products` being the recording at stop, `given` the
optional command / by-products / environment arguments. -/
def recordStop (key : Str) (products : Dict Str RecVal) (d : WDir) (given : LinkExtras := LinkExtras.empty) :
    Except Err WDir :=
  match d.prelim with
  | .absent => .error .os                    -- FileNotFoundError (LinkNotFoundError with --gpg)
  | .partialWrite => .error .other           -- not loadable
  | .complete p =>
    if p.signer = key ∧ p.intact then
      .ok { prelim := .absent, final := .complete (finalOf p products key given) }
    else .error .signature

/-- The gpg key-argument forms (`gpg_keyid`, `gpg_use_default`) do not know the file name in advance: the
preliminary record is found by globbing for the step name, and exactly one must exist — whoever signed it. It
is then checked against the key like any other. `prelims` = the preliminary files of that step name. -/
def recordStopGlob (key : Str) (products : Dict Str RecVal) (prelims : List (FState Prelim))
    (given : LinkExtras := LinkExtras.empty) : Except Err FinalLink :=
  match prelims with
  | [] => .error .linkNotFound
  | [.complete p] => if p.signer = key ∧ p.intact then .ok (finalOf p products key given) else .error .signature
  | [.partialWrite] => .error .other
  | [.absent] => .error .linkNotFound
  | _ :: _ :: _ => .error .linkNotFound        -- more than one: "We need exactly one to stop recording"

/-! ## … and as the sequence of file-system operations it performs -/

inductive StopOp where
  | readPrelim        -- open + load + verify the preliminary record
  | readProduct       -- one file read while recording the products
  | createFinal       -- open(final, "wb"): creates / truncates
  | writeFinal        -- write(all bytes); close
  | removePrelim      -- os.remove(preliminary)
  deriving Repr, DecidableEq

/-- The stop phase's operations, in order. -/
def stopOps (nProducts : Nat) : List StopOp :=
  [.readPrelim] ++ List.replicate nProducts .readProduct ++ [.createFinal, .writeFinal, .removePrelim]

/-- Effect of one completed operation on the directory (`link` = the final link
being written). -/
def applyStopOp (link : FinalLink) (d : WDir) : StopOp → WDir
  | .readPrelim => d
  | .readProduct => d
  | .createFinal => { d with final := .partialWrite }
  | .writeFinal => { d with final := .complete link }
  | .removePrelim => { d with prelim := .absent }

/-- The directory after the process dies having completed the first `k`
operations. (A crash *inside* `writeFinal` leaves the state after `createFinal`:
a partially written file.) -/
def crashAfter (link : FinalLink) (d : WDir) (nProducts k : Nat) : WDir :=
  ((stopOps nProducts).take k).foldl (applyStopOp link) d


/-! ## Several step names and keys in one directory -/

/-- A (step name, key id) pair: its two files are `.<name>.<keyid8>.link-unfinished`
and `<name>.<keyid8>.link`. -/
abbrev Slot := Str × Str

/-- The directory: the two files of every slot. -/
abbrev DirState := Slot → WDir

def DirState.empty : DirState := fun _ => { prelim := .absent, final := .absent }

def DirState.set (st : DirState) (s : Slot) (d : WDir) : DirState := fun t => if t = s then d else st t

inductive DirOp where
  | start (s : Slot) (materials : Dict Str RecVal)                      -- in_toto_record_start
  | stop (s : Slot) (products : Dict Str RecVal)                        -- in_toto_record_stop
  | run (s : Slot) (materials products : Dict Str RecVal)               -- in_toto_run
  deriving Repr

def DirOp.slot : DirOp → Slot
  | .start s _ => s
  | .stop s _ => s
  | .run s _ _ => s

/-- One library call on the directory: the new directory and whether the call succeeded.
`start` (over)writes the preliminary record; `stop` is `recordStop` on the slot's two files;
`run` (over)writes the final link. -/
def applyDirOp (st : DirState) : DirOp → DirState × Bool
  | .start s m => (st.set s { st s with prelim := .complete { materials := m, signer := s.2, intact := true } }, true)
  | .stop s p =>
    match recordStop s.2 p (st s) with
    | .ok d => (st.set s d, true)
    | .error _ => (st, false)
  | .run s m p => (st.set s { st s with final := .complete { materials := m, products := p, signer := s.2 } }, true)

/-- A sequence of calls: the final directory and the outcome of each call. -/
def runDirOps : DirState → List DirOp → DirState × List Bool
  | st, [] => (st, [])
  | st, op :: rest =>
    let r := applyDirOp st op
    let q := runDirOps r.1 rest
    (q.1, r.2 :: q.2)

/-! ## Which files count as preliminary records of a step

When the key id is not known up front (the gpg key-argument forms),
`in_toto_record_stop` looks for the preliminary record by step name:
`glob('.<escaped step>.*.link-unfinished')`, keeping the names whose key-id part
contains no dot. -/

/-- `l = p ++ r` for some `r`: that `r`. -/
def stripPrefix? : Str → Str → Option Str
  | [], l => some l
  | _ :: _, [] => none
  | a :: p, b :: l => if a = b then stripPrefix? p l else none

/-- `l = r ++ s` for some `r`: that `r`. -/
def stripSuffix? (s l : Str) : Option Str := (stripPrefix? s.reverse l.reverse).map List.reverse

def unfinishedSuffix : Str := lit ".link-unfinished"

/-- `UNFINISHED_FILENAME_FORMAT`: `.<step>.<keyid[:8]>.link-unfinished` -/
def unfinishedName (step keyid : Str) : Str := '.' :: step ++ '.' :: trunc8 keyid ++ unfinishedSuffix

/-- Does the file name count as a preliminary record of `step`? -/
def selectsPrelim (step file : Str) : Bool :=
  match stripPrefix? ('.' :: step ++ ['.']) file with
  | none => false
  | some rest =>
    match stripSuffix? unfinishedSuffix rest with
    | none => false
    | some mid => !mid.contains '.'

end InToto
