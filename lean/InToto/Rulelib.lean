import InToto.Basic
/-!
# Model of `in_toto/rulelib.py`: `unpack_rule`, `pack_rule`, `pack_rule_data`
-/
namespace InToto

/-- An element of a rule list as found in (untrusted) JSON: a string or
anything else. -/
inductive Tok where
  | str (s : Str)
  | nonStr
  deriving DecidableEq, Repr

inductive GenericType where
  | create | modify | delete | allow | disallow | require
  deriving DecidableEq, Repr

inductive DestType where
  | materials | products
  deriving DecidableEq, Repr

/-- The dictionary returned by `unpack_rule`. -/
inductive RuleData where
  | generic (ty : GenericType) (pattern : Str)
  | match_ (pattern sourcePrefix destPrefix : Str) (destType : DestType) (destName : Str)
  deriving DecidableEq, Repr

def GenericType.keyword : GenericType → Str
  | .create => lit "create" | .modify => lit "modify" | .delete => lit "delete"
  | .allow => lit "allow" | .disallow => lit "disallow" | .require => lit "require"

def DestType.keyword : DestType → Str
  | .materials => lit "materials" | .products => lit "products"

/-- `rule_lower[0] in GENERIC_RULES`, returning which one. -/
def genericOfKeyword (s : Str) : Option GenericType :=
  if s = lit "create" then some .create
  else if s = lit "modify" then some .modify
  else if s = lit "delete" then some .delete
  else if s = lit "allow" then some .allow
  else if s = lit "disallow" then some .disallow
  else if s = lit "require" then some .require
  else none

def destTypeOfKeyword (s : Str) : Option DestType :=
  if s = lit "materials" then some .materials
  else if s = lit "products" then some .products
  else none

/-- `_check_str_list` on the elements: all strings, or `none`. -/
def allStrs : List Tok → Option (List Str)
  | [] => some []
  | .str s :: r => (allStrs r).map (s :: ·)
  | .nonStr :: _ => none

def kIn := lit "in"
def kWith := lit "with"
def kFrom := lit "from"
def kMatch := lit "match"

/-- Final step of a MATCH rule: the destination kind must be MATERIALS or
PRODUCTS (case-insensitive). -/
def mkMatch (pattern sp dtTok dp dn : Str) : Except Err RuleData :=
  match destTypeOfKeyword (lower dtTok) with
  | some dt => .ok (.match_ pattern sp dp dt dn)
  | none => .error .format

/-- `unpack_rule` on a list of strings. -/
def unpackStrs (rule : List Str) : Except Err RuleData :=
  match rule with
  | [] | [_] => .error .format
  | kw :: pattern :: rest =>
    match genericOfKeyword (lower kw) with
    | some g => if rest = [] then .ok (.generic g pattern) else .error .format
    | none =>
      if lower kw = kMatch then
        match rest with
        | [a, sp, b, dt, c, dp, d, dn] =>
          if lower a = kIn ∧ lower b = kWith ∧ lower c = kIn ∧ lower d = kFrom
          then mkMatch pattern sp dt dp dn else .error .format
        | [a, x, b, y, c, dn] =>
          if lower a = kIn ∧ lower b = kWith ∧ lower c = kFrom then mkMatch pattern x y [] dn
          else if lower a = kWith ∧ lower b = kIn ∧ lower c = kFrom then mkMatch pattern [] x y dn
          else .error .format
        | [a, dt, b, dn] =>
          if lower a = kWith ∧ lower b = kFrom then mkMatch pattern [] dt [] dn else .error .format
        | _ => .error .format
      else .error .format

/-- `unpack_rule(rule)` for a JSON list `rule`. (A non-list argument is a
`FormatError` too; the driver handles that case.) -/
def unpackRule (rule : List Tok) : Except Err RuleData :=
  match allStrs rule with
  | none => .error .format
  | some ss => unpackStrs ss

/-- `pack_rule_data(rule_data)` for the dictionaries `unpack_rule` returns. -/
def packRule : RuleData → Except Err (List Str)
  | .generic g pattern => .ok [upper g.keyword, pattern]
  | .match_ pattern sp dp dt dn =>
    if dn = [] then .error .format
    else .ok ([lit "MATCH", pattern]
      ++ (if sp = [] then [] else [lit "IN", sp])
      ++ [lit "WITH", upper dt.keyword]
      ++ (if dp = [] then [] else [lit "IN", dp])
      ++ [lit "FROM", dn])

end InToto
