import InToto.Subst
/-!
# Model of `in_toto/verifylib.py`: the verification pipeline

`verify` models `in_toto_verify`; it returns the verdict (summary link or the
exception class raised) **and** the trace of inspection commands executed, in
order, including those executed inside sublayout verifications.
-/
namespace InToto

/-! ## Signatures -/

/-- The signature scheme is a parameter: `verify material message signatureValue`. -/
structure Scheme where
  verify : Str → Str → Str → Bool

inductive SigCheck where
  | ok
  | bad                 -- SignatureVerificationError
  | expired             -- KeyExpirationError (gpg key past its validity period)
  | crash (e : Err)     -- the check itself raised (FormatError, ValueError, KeyError)
  deriving Repr, DecidableEq

/-- `creation_time and validity_period and creation_time + validity_period < time.time()` -/
def gpgExpired (k : PubKey) (nowSec : Int) : Bool :=
  match k.creation, k.validity with
  | some c, some v => c ≠ 0 ∧ v ≠ 0 ∧ c + v < nowSec
  | _, _ => false

def sigValueOk (S : Scheme) (material msg : Str) : Option Str → Bool
  | some v => S.verify material msg v
  | none => false

/-- Does the signature entry belong to the key or one of its subkeys? -/
def sigMatchesKey (k : PubKey) (s : SigEntry) : Bool :=
  match s.keyid with
  | some i => i = k.keyid || (k.subkeys.map (·.1)).contains i
  | none => false

/-- `Metablock.verify_signature(verification_key)`: the *first* signature whose
key id is the key's or one of its subkeys' decides. -/
def metablockVerify (S : Scheme) (nowSec : Int) (sigs : List SigEntry) (bytes : Option Str)
    (keyJ : JVal) : SigCheck :=
  match readPubKey keyJ with
  | .error e => .crash e
  | .ok k =>
    match sigs.find? (sigMatchesKey k) with
    | none => .bad
    | some s =>
      if s.gpgShaped then
        match bytes with
        | none => .crash .format
        | some b =>
          if !k.gpg then .crash .format
          else
            let vk : Except Err PubKey :=
              match s.keyid with
              | some i =>
                match Dict.get? k.subkeys i with
                | some skJ => readPubKey skJ
                | none => .ok k
              | none => .ok k
            match vk with
            | .error e => .crash e
            | .ok vk =>
              if gpgExpired vk nowSec then .expired
              else if sigValueOk S vk.material b s.value then .ok else .bad
      else
        if k.gpg then .crash .value
        else
          match bytes with
          | none => .crash .format
          | some b =>
            if s.keyid = some k.keyid ∧ sigValueOk S k.material b s.value then .ok else .bad

/-- `Envelope.verify_signature(verification_key)`: *any* signature carrying the
key's id may verify. -/
def envelopeVerify (S : Scheme) (sigs : List SigEntry) (paeBytes : Str) (keyJ : JVal) : SigCheck :=
  match readPubKey keyJ with
  | .error e => .crash e
  | .ok k =>
    if k.gpg then .crash .value
    else if sigs.any (fun s => s.keyid = some k.keyid ∧ sigValueOk S k.material paeBytes s.value)
    then .ok else .bad

/-- The bytes (as text) a signature over this metadata must cover. -/
def Metadata.signedBytes : Metadata → Option Str
  | .metablock _ signed => signed.signableBytes
  | .envelope _ text _ => some (pae envelopePayloadType text)

def Metadata.verifySignature (S : Scheme) (nowSec : Int) (md : Metadata) (keyJ : JVal) : SigCheck :=
  match md with
  | .metablock sigs signed => metablockVerify S nowSec sigs signed.signableBytes keyJ
  | .envelope sigs text _ => envelopeVerify S sigs (pae envelopePayloadType text) keyJ

/-! ## The world a verification runs in -/

inductive InspOutcome where
  | exit (code : Int) (materials products : Artifacts)
  | timeout
  | oserror
  deriving Repr

/-- A file that exists: `none` = cannot be loaded (not JSON, …), otherwise the
parsed JSON and, for envelopes, the decoded parts. -/
abbrev FileContent := Option (JVal × Option EnvAux)

structure World where
  S : Scheme
  nowMicros : Int
  nowSec : Int
  files : Dict Str FileContent
  insp : List Str → Option InspOutcome

/-! ## Stages -/

/-- How a signature check surfaces when nothing catches it. -/
def sigCheckToExcept : SigCheck → Except Err Unit
  | .ok => .ok ()
  | .bad => .error .signature
  | .expired => .error .keyExpired
  | .crash e => .error e

/-- `verify_metadata_signatures(metadata, keys_dict)` -/
def verifyMetadataSignatures (w : World) (md : Metadata) (keys : List (Str × JVal)) : Except Err Unit :=
  match checkPublicKeys keys with
  | .error e => .error e
  | .ok _ =>
    if keys = [] then .error .signature
    else allE (fun (kv : Str × JVal) => sigCheckToExcept (md.verifySignature w.S w.nowSec kv.2)) keys

/-- `verify_layout_expiration(layout)`: fails iff `expiry <= now`. -/
def verifyLayoutExpiration (w : World) (l : Layout) : Except Err Unit :=
  match expiryInstant l.expires with
  | none => .error .other
  | some t => if t * 1000000 ≤ w.nowMicros then .error .expired else .ok ()

def nameOf : Option Str → Except Err Str
  | some s => .ok s
  | none => .error .other      -- a step / inspection without a string name is not modelled

/-- `if substitution_parameters is not None: substitute_parameters(layout, …)` -/
def substIfAny (params : Option (List (Str × Option Str))) (l : Layout) : Except Err Layout :=
  match params with
  | none => .ok l
  | some raw =>
    match substituteParameters raw l with
    | (_, some e) => .error e
    | (l', none) => .ok l'

/-- Steps and inspections without a string name are not modelled. -/
def namesOk (l : Layout) : Except Err Unit :=
  match mapE (fun (s : Step) => nameOf s.name) l.steps, mapE (fun (i : Inspection) => nameOf i.name) l.inspect with
  | .ok _, .ok _ => .ok ()
  | _, _ => .error .other

/-- Signature check, payload extraction, expiry, parameter substitution: the
gate every acceptance passes. Returns the layout that is evaluated. -/
def gate (w : World) (md : Metadata) (keys : List (Str × JVal))
    (params : Option (List (Str × Option Str))) : Except Err Layout :=
  match verifyMetadataSignatures w md keys with
  | .error e => .error e
  | .ok _ =>
    match md.getPayload with
    | .error e => .error e
    | .ok (.link _) => .error .attribute
    | .ok (.layout l0) =>
      match verifyLayoutExpiration w l0 with
      | .error e => .error e
      | .ok _ =>
        match substIfAny params l0 with
        | .error e => .error e
        | .ok layout =>
          match namesOk layout with
          | .error e => .error e
          | .ok _ => .ok layout

/-- The caller's metadata object after the call (C16): an envelope is never
touched; a Metablock's payload object is the one substitution works on. -/
def callerAfter (w : World) (md : Metadata) (keys : List (Str × JVal))
    (params : Option (List (Str × Option Str))) : Metadata :=
  match md, params with
  | .metablock sigs (.layout l), some raw =>
    match verifyMetadataSignatures w md keys, verifyLayoutExpiration w l with
    | .ok _, .ok _ => .metablock sigs (.layout (substituteParameters raw l).1)
    | _, _ => md
  | _, _ => md

def linkFileName (stepName keyid : Str) : Str := stepName ++ '.' :: trunc8 keyid ++ lit ".link"

def subkeyIds (keyJ : Option JVal) : List Str :=
  match keyJ with
  | some k =>
    match k.getKey? (lit "subkeys") with
    | some (.obj sk) => sk.map (·.1)
    | _ => []
  | none => []

/-- `Metadata.load(path)`: `none` = no such file (IOError). -/
def loadFile (w : World) (path : Str) : Option (Except Err Metadata) :=
  match Dict.get? w.files path with
  | none => none
  | some none => some (.error .other)
  | some (some (data, aux)) => some (Metadata.fromDict data aux)

/-- Load the links of one step: key ids tried in order, a later file for the
same key id replaces the earlier entry (dict semantics). -/
def loadStepLinks (w : World) (dir stepName : Str) : List Str → Dict Str Metadata → Except Err (Dict Str Metadata)
  | [], acc => .ok acc
  | keyid :: rest, acc =>
    match loadFile w (pathJoin dir (linkFileName stepName keyid)) with
    | none => loadStepLinks w dir stepName rest acc
    | some (.error e) => .error e
    | some (.ok md) => loadStepLinks w dir stepName rest (Dict.insert acc keyid md)

/-- The key ids whose link files are looked for: every authorised id followed by
the subkeys of that key in the layout's key store. -/
def candidateIds (l : Layout) (step : Step) : List Str :=
  step.pubkeys.flatMap (fun a => a :: subkeyIds (Dict.get? l.keys a))

/-- `load_links_for_layout`, the loop over steps. -/
def loadLinksSteps (w : World) (l : Layout) (dir : Str) :
    List Step → Dict Str (Dict Str Metadata) → Except Err (Dict Str (Dict Str Metadata))
  | [], acc => .ok acc
  | step :: rest, acc =>
    match nameOf step.name with
    | .error e => .error e
    | .ok name =>
      match loadStepLinks w dir name (candidateIds l step) [] with
      | .error e => .error e
      | .ok links =>
        if (links.length : Int) < step.threshold then .error .linkNotFound
        else loadLinksSteps w l dir rest (Dict.insert acc name links)

/-- `load_links_for_layout(layout, link_dir_path)` -/
def loadLinksForLayout (w : World) (l : Layout) (dir : Str) : Except Err (Dict Str (Dict Str Metadata)) :=
  loadLinksSteps w l dir l.steps []

/-- `main_keys_for_subkeys` -/
def mainKeysForSubkeys (keys : List (Str × JVal)) : Dict Str JVal :=
  keys.foldl (fun acc (_, mainKey) =>
    (subkeyIds (some mainKey)).foldl (fun acc' sub => Dict.insert acc' sub mainKey) acc) []

def keyidOf (k : JVal) : Except Err Str :=
  match k.getKey? (lit "keyid") with
  | some (.str s) => .ok s
  | _ => .error .keyError

/-- The authorisation loop (`for authorized_keyid in step.pubkeys … else`):
the key to verify with and the main key id that counts, or `none`. -/
def authorise (keys : List (Str × JVal)) (subMap : Dict Str JVal) (linkKeyid : Str) :
    List Str → Except Err (Option (JVal × Str))
  | [] => .ok none
  | a :: rest =>
    let authKey := Dict.get? keys a
    let mainForSub := Dict.get? subMap a
    -- The signing key is authorized ...
    match (if linkKeyid = a then authKey else none) with
    | some k => (keyidOf k).map (fun i => some (k, i))
    | none =>
      -- ... or the signing key is an authorized subkey (only that subkey verifies) ...
      match (if linkKeyid = a then mainForSub else none) with
      | some m =>
        match (m.getKey? (lit "subkeys")).bind (·.getKey? a) with
        | some sk => (keyidOf m).map (fun i => some (sk, i))
        | none => .error .keyError
      | none =>
        -- ... or the signing key is a subkey of an authorized key
        match authKey with
        | some k =>
          if (subkeyIds (some k)).contains linkKeyid then (keyidOf k).map (fun i => some (k, i))
          else authorise keys subMap linkKeyid rest
        | none => authorise keys subMap linkKeyid rest

/-- A link must have been recorded for the step it is presented for; a sublayout
carries no name and is bound by its directory. -/
def nameBound (payload : Payload) (stepName : Str) : Bool :=
  match payload with
  | .link lk => lk.name = some stepName
  | .layout _ => true

/-- One step of `verify_link_signature_thresholds`: retained links (in load
order) and the main key ids counted. -/
def verifyStepLinks (w : World) (l : Layout) (subMap : Dict Str JVal) (step : Step) (stepName : Str) :
    List (Str × Metadata) → Dict Str Metadata → List Str → Except Err (Dict Str Metadata × List Str)
  | [], kept, used => .ok (kept, used)
  | (linkKeyid, md) :: rest, kept, used =>
    match authorise l.keys subMap linkKeyid step.pubkeys with
    | .error e => .error e
    | .ok none => verifyStepLinks w l subMap step stepName rest kept used
    | .ok (some (vkey, mainId)) =>
      match md.verifySignature w.S w.nowSec vkey with
      | .bad | .expired => verifyStepLinks w l subMap step stepName rest kept used
      | .crash e =>
        if e = .format ∨ e = .keyError ∨ e = .value then verifyStepLinks w l subMap step stepName rest kept used
        else .error e
      | .ok =>
        match md.getPayload with
        | .error e => .error e
        | .ok payload =>
          if !nameBound payload stepName then verifyStepLinks w l subMap step stepName rest kept used
          else verifyStepLinks w l subMap step stepName rest (Dict.insert kept linkKeyid md) (used ++ [mainId])

/-- `verify_link_signature_thresholds`, the loop over steps. -/
def verifySigSteps (w : World) (l : Layout) (subMap : Dict Str JVal) (stepsMd : Dict Str (Dict Str Metadata)) :
    List Step → Dict Str (Dict Str Metadata) → Except Err (Dict Str (Dict Str Metadata))
  | [], acc => .ok acc
  | step :: rest, acc =>
    match nameOf step.name with
    | .error e => .error e
    | .ok name =>
      match verifyStepLinks w l subMap step name ((Dict.get? stepsMd name).getD []) [] [] with
      | .error e => .error e
      | .ok (kept, used) =>
        if ((dedup used).length : Int) < step.threshold then .error .threshold
        else verifySigSteps w l subMap stepsMd rest (Dict.insert acc name kept)

/-- `verify_link_signature_thresholds(layout, steps_metadata)` -/
def verifyLinkSignatureThresholds (w : World) (l : Layout) (stepsMd : Dict Str (Dict Str Metadata)) :
    Except Err (Dict Str (Dict Str Metadata)) :=
  verifySigSteps w l (mainKeysForSubkeys l.keys) stepsMd l.steps []

/-- Python `==` on two artifact dictionaries. -/
def artsEq (a b : Artifacts) : Bool :=
  a.all (fun p => match Dict.get? b p.1 with | some h => hashEq p.2 h | none => false) &&
  b.all (fun p => match Dict.get? a p.1 with | some h => hashEq p.2 h | none => false)

/-- Do all links agree with the first one on materials and products? -/
def allAgree : List (Str × Link) → Bool
  | [] => true
  | (k, ref) :: rest =>
    ((k, ref) :: rest).all (fun p => artsEq ref.materials p.2.materials && artsEq ref.products p.2.products)

/-- `verify_threshold_constraints`, one step. -/
def thresholdStep (chain : Dict Str (Dict Str Link)) (step : Step) : Except Err Unit :=
  if step.threshold ≤ 1 then .ok ()
  else
    match nameOf step.name with
    | .error e => .error e
    | .ok name =>
      match Dict.get? chain name with
      | none => .error .keyError
      | some links =>
        if (links.length : Int) < step.threshold then .error .threshold
        else if allAgree links then .ok () else .error .threshold

/-- `verify_threshold_constraints(layout, chain_link_dict)` -/
def verifyThresholdConstraints (l : Layout) (chain : Dict Str (Dict Str Link)) : Except Err Unit :=
  allE (thresholdStep chain) l.steps

/-- `reduce_chain_links(chain_link_dict)` -/
def reduceChainLinks (chain : Dict Str (Dict Str Link)) : Except Err (Dict Str Link) :=
  mapE (fun (nl : Str × Dict Str Link) =>
    match nl.2 with
    | [] => .error .indexError
    | (_, lk) :: _ => .ok (nl.1, lk)) chain

def Link.arts (l : Link) : LinkArts := { materials := l.materials, products := l.products }

def linksArts (d : Dict Str Link) : Dict Str LinkArts := d.map (fun (n, l) => (n, l.arts))

def Step.ruleItem (s : Step) (name : Str) : RuleItem :=
  { name, expectedMaterials := s.expectedMaterials, expectedProducts := s.expectedProducts }
def Inspection.ruleItem (i : Inspection) (name : Str) : RuleItem :=
  { name, expectedMaterials := i.expectedMaterials, expectedProducts := i.expectedProducts }

def strsOf (cmd : List JVal) : Option (List Str) :=
  cmd.mapM (fun a => match a with | .str s => some s | _ => none)

/-- `run_all_inspections`: executed commands (in order) and the inspection
links, or the error that stopped the loop. -/
def runAllInspections (w : World) : List Inspection → Dict Str Link → Except Err (Dict Str Link) × List (List Str)
  | [], acc => (.ok acc, [])
  | i :: rest, acc =>
    match i.name with
    | none => (.error .other, [])
    | some name =>
      if i.run = [] then (.error .badReturn, [])     -- no command: no return value recorded
      else
        match strsOf i.run with
        | none => (.error .format, [])               -- _check_str_list(link_cmd_args)
        | some cmd =>
          match w.insp cmd with
          | none => (.error .other, [cmd])
          | some .oserror => (.error .os, [cmd])
          | some .timeout => (.error .timeout, [cmd])
          | some (.exit code materials products) =>
            if code ≠ 0 then (.error .badReturn, [cmd])
            else
              let lk : Link := { name := some name, materials, products,
                                 byproducts := [], command := i.run, environment := [] }
              let (r, tr) := runAllInspections w rest (Dict.insert acc name lk)
              (r, cmd :: tr)

/-- `get_summary_link(layout, reduced_chain_link_dict, name)` -/
def getSummaryLink (l : Layout) (reduced : Dict Str Link) (name : Str) : Except Err Link :=
  match l.steps.head?, l.steps.getLast? with
  | some first, some last => do
    let fn ← nameOf first.name
    let ln ← nameOf last.name
    match Dict.get? reduced fn, Dict.get? reduced ln with
    | some f, some la =>
      pure { name := some name, materials := f.materials, products := la.products,
             byproducts := la.byproducts, command := la.command, environment := [] }
    | _, _ => throw .keyError
  | _, _ => pure { name := none, materials := [], products := [], byproducts := [], command := [],
                    environment := [] }

def sublayoutDirName (stepName keyid : Str) : Str := stepName ++ '.' :: trunc8 keyid

structure VerifyOut where
  result : Except Err Link
  trace : List (List Str)

/-- `verify_sublayouts`, for the entries of one step. `recur` is `in_toto_verify`
one level down. -/
def verifySublayoutsStep (recur : Metadata → List (Str × JVal) → Str → Str → VerifyOut)
    (l : Layout) (dir stepName : Str) :
    List (Str × Metadata) → Dict Str Link → Except Err (Dict Str Link) × List (List Str)
  | [], acc => (.ok acc, [])
  | (keyid, md) :: rest, acc =>
    match md.getPayload with
    | .error e => (.error e, [])
    | .ok (.link lk) =>
      verifySublayoutsStep recur l dir stepName rest (Dict.insert acc keyid lk)
    | .ok (.layout _) =>
      let keyJ := (Dict.get? l.keys keyid).getD .null
      let out := recur md [(keyid, keyJ)] (pathJoin dir (sublayoutDirName stepName keyid)) stepName
      match out.result with
      | .error e => (.error e, out.trace)
      | .ok summary =>
        let (r, tr) := verifySublayoutsStep recur l dir stepName rest (Dict.insert acc keyid summary)
        (r, out.trace ++ tr)

/-- `verify_sublayouts(layout, steps_metadata, dir)` -/
def verifySublayouts (recur : Metadata → List (Str × JVal) → Str → Str → VerifyOut)
    (l : Layout) (dir : Str) :
    List (Str × Dict Str Metadata) → Dict Str (Dict Str Link) →
      Except Err (Dict Str (Dict Str Link)) × List (List Str)
  | [], acc => (.ok acc, [])
  | (stepName, mds) :: rest, acc =>
    match verifySublayoutsStep recur l dir stepName mds [] with
    | (.error e, tr) => (.error e, tr)
    | (.ok links, tr) =>
      let (r, tr') := verifySublayouts recur l dir rest (Dict.insert acc stepName links)
      (r, tr ++ tr')

def stepItems (l : Layout) : Except Err (List RuleItem) :=
  mapE (fun (s : Step) => (nameOf s.name).map s.ruleItem) l.steps

def inspItems (l : Layout) : Except Err (List RuleItem) :=
  mapE (fun (i : Inspection) => (nameOf i.name).map i.ruleItem) l.inspect

/-- Everything between sublayout verification and the inspections. -/
def checkChain (gm : Str → Str → Bool) (l : Layout) (chain : Dict Str (Dict Str Link)) :
    Except Err (Dict Str Link) :=
  match verifyThresholdConstraints l chain with
  | .error e => .error e
  | .ok _ =>
    match reduceChainLinks chain with
    | .error e => .error e
    | .ok reduced =>
      match stepItems l with
      | .error e => .error e
      | .ok items =>
        match verifyAllItemRules gm (linksArts reduced) items with
        | .error e => .error e
        | .ok _ => .ok reduced

/-- Rules of the inspections, over step links and inspection links together. -/
def checkInspections (gm : Str → Str → Bool) (l : Layout) (reduced inspLinks : Dict Str Link) : Except Err Unit :=
  match inspItems l with
  | .error e => .error e
  | .ok items => verifyAllItemRules gm (linksArts (Dict.update reduced inspLinks)) items

/-- `in_toto_verify`. `fuel` bounds the nesting depth of sublayouts (the code
recurses without bound). -/
def verify (gm : Str → Str → Bool) (w : World) : Nat → Metadata → List (Str × JVal) → Str →
    Option (List (Str × Option Str)) → Str → VerifyOut
  | 0, _, _, _, _, _ => { result := .error .recursion, trace := [] }
  | fuel + 1, md, keys, dir, params, stepName =>
    match gate w md keys params with
    | .error e => { result := .error e, trace := [] }
    | .ok layout =>
      match loadLinksForLayout w layout dir with
      | .error e => { result := .error e, trace := [] }
      | .ok loaded =>
      match verifyLinkSignatureThresholds w layout loaded with
      | .error e => { result := .error e, trace := [] }
      | .ok stepsMd =>
        match verifySublayouts (fun md' keys' dir' name' => verify gm w fuel md' keys' dir' none name')
                layout dir stepsMd [] with
        | (.error e, tr1) => { result := .error e, trace := tr1 }
        | (.ok chain, tr1) =>
          match checkChain gm layout chain with
          | .error e => { result := .error e, trace := tr1 }
          | .ok reduced =>
            match runAllInspections w layout.inspect [] with
            | (.error e, tr2) => { result := .error e, trace := tr1 ++ tr2 }
            | (.ok inspLinks, tr2) =>
              match checkInspections gm layout reduced inspLinks with
              | .error e => { result := .error e, trace := tr1 ++ tr2 }
              | .ok _ => { result := getSummaryLink layout reduced stepName, trace := tr1 ++ tr2 }

end InToto
