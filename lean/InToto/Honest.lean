import InToto.Verify
/-!
# Deciding whether a supply chain was carried out honestly (hypotheses of `honest_chain_verifies`)

Definitions only; the theorems are in `Proofs/Honest.lean`. Every step was carried
out by some of its authorised functionaries - at least `threshold` of them - each of
whose links is in place: under the id of the authorised key (as `in-toto-record`
names it) or under the id of one of that key's subkeys (as `in-toto-run` names it
when a gpg signing subkey made the signature), validly signed and naming the step;
authorised functionaries who did not take part left no file; where more than one
link is asked for, they all report what the first reports. A functionary's evidence
may also be a layout of its own (a delegated step): then that layout, verified on its
own with that functionary's key in its own directory, is itself carried out honestly
- at any depth - and the link it stands for is its summary link.
-/
namespace InToto

/-- What one functionary's honest performance of a step left behind. -/
structure FuncRecord where
  kid : Str
  /-- the key id in the name of the link file: `kid` or one of the key's subkeys -/
  fileId : Str
  keyJ : JVal
  md : Metadata
  /-- the link recorded, or - for a delegated step - the summary link of the sublayout -/
  lk : Link
  /-- inspection commands executed while verifying the sublayout (none for a plain link) -/
  tr : List (List Str)

/-- What the honest performance of one step left behind: the records of the
functionaries who took part, in the order in which the step lists them. -/
structure StepRecord where
  name : Str
  parts : List FuncRecord

def StepRecord.loaded (r : StepRecord) : Dict Str Metadata := r.parts.map (fun f => (f.fileId, f.md))
def StepRecord.chain (r : StepRecord) : Dict Str Link := r.parts.map (fun f => (f.fileId, f.lk))

def loadedOf (rs : List StepRecord) : Dict Str (Dict Str Metadata) := rs.map (fun r => (r.name, r.loaded))
def chainOf (rs : List StepRecord) : Dict Str (Dict Str Link) := rs.map (fun r => (r.name, r.chain))
/-- The link used for a step: the first functionary's. -/
def StepRecord.trace (r : StepRecord) : List (List Str) := r.parts.flatMap (·.tr)
def tracesOf (rs : List StepRecord) : List (List Str) := rs.flatMap (·.trace)
def firstLinks (rs : List StepRecord) : List (Str × Link) :=
  rs.filterMap (fun r => match r.parts with | [] => none | f :: _ => some (r.name, f.lk))
def linksOf (rs : List StepRecord) : Dict Str Link := firstLinks rs

/-- The ids under which the verifier looks for the link of the functionary authorised as `a`. -/
def segOf (l : Layout) (a : Str) : List Str := a :: subkeyIds (Dict.get? l.keys a)

def present (w : World) (dir name cid : Str) : Bool := (loadFile w (pathJoin dir (linkFileName name cid))).isSome

/-- The key a sublayout filed under `keyid` is verified with (`layout.keys[keyid]`). -/
def subKeyOf (l : Layout) (keyid : Str) : JVal := (Dict.get? l.keys keyid).getD .null

/-- The record of one authorised functionary: `some none` = took no part (no file under
any of the ids), `some (some f)` = took part honestly, `none` = neither. `sub` decides
a delegated layout (the procedure itself, one level down). -/
def honestFunc (sub : Metadata → List (Str × JVal) → Str → Str → Option VerifyOut)
    (w : World) (l : Layout) (dir name a : Str) : Option (Option FuncRecord) :=
  match (segOf l a).filter (present w dir name) with
  | [] => some none
  | fid :: more =>
    if more.all (fun x => x = fid) = true then
      match Dict.get? l.keys a with
      | some keyJ =>
        if keyidOf keyJ = .ok a then
          match loadFile w (pathJoin dir (linkFileName name fid)) with
          | some (.ok md) =>
            if md.verifySignature w.S w.nowSec keyJ = .ok then
              match md.getPayload with
              | .ok (.link lk) =>
                if lk.name = some name then
                  some (some { kid := a, fileId := fid, keyJ := keyJ, md := md, lk := lk, tr := [] })
                else none
              | .ok (.layout _) =>
                match sub md [(fid, subKeyOf l fid)] (pathJoin dir (sublayoutDirName name fid)) name with
                | some out =>
                  match out.result with
                  | .ok summary =>
                    some (some { kid := a, fileId := fid, keyJ := keyJ, md := md, lk := summary, tr := out.trace })
                  | .error _ => none
                | none => none
              | _ => none
            else none
          | _ => none
        else none
      | none => none
    else none

def honestFuncs (sub : Metadata → List (Str × JVal) → Str → Str → Option VerifyOut)
    (w : World) (l : Layout) (dir name : Str) : List Str → Option (List FuncRecord)
  | [] => some []
  | a :: rest =>
    match honestFunc sub w l dir name a, honestFuncs sub w l dir name rest with
    | some none, some fs => some fs
    | some (some f), some fs => some (f :: fs)
    | _, _ => none

/-- The record of an honestly performed step, if the step was performed that way. -/
def honestRecord (sub : Metadata → List (Str × JVal) → Str → Str → Option VerifyOut)
    (w : World) (l : Layout) (dir : Str) (step : Step) : Option StepRecord :=
  match step.name with
  | some name =>
    if (candidateIds l step).Nodup then
      match honestFuncs sub w l dir name step.pubkeys with
      | some (f :: fs) =>
        if step.threshold ≤ ((f :: fs).length : Int) ∧
            (step.threshold ≤ 1 ∨ allAgree ((f :: fs).map (fun g => (g.fileId, g.lk))) = true) then
          some { name := name, parts := f :: fs }
        else none
      | _ => none
    else none
  | none => none

def honestRecords (sub : Metadata → List (Str × JVal) → Str → Str → Option VerifyOut)
    (w : World) (l : Layout) (dir : Str) : List Step → Option (List StepRecord)
  | [] => some []
  | step :: rest =>
    match honestRecord sub w l dir step, honestRecords sub w l dir rest with
    | some r, some rs => some (r :: rs)
    | _, _ => none

/-- One level of the decision procedure, given the procedure for delegated layouts. -/
def honestCheckWith (sub : Metadata → List (Str × JVal) → Str → Str → Option VerifyOut)
    (gm : Str → Str → Bool) (w : World) (md : Metadata) (keys : List (Str × JVal)) (dir : Str)
    (params : Option (List (Str × Option Str))) (stepName : Str) : Option VerifyOut :=
  match gate w md keys params with
  | .error _ => none
  | .ok layout =>
    match honestRecords sub w layout dir layout.steps with
    | none => none
    | some rs =>
      if (rs.map (·.name)).Nodup then
        match stepItems layout with
        | .error _ => none
        | .ok items =>
          if verifyAllItemRules gm (linksArts (linksOf rs)) items = .ok () then
            match runAllInspections w layout.inspect [] with
            | (.ok inspLinks, tr) =>
              if checkInspections gm layout (linksOf rs) inspLinks = .ok () then
                some { result := getSummaryLink layout (linksOf rs) stepName, trace := tracesOf rs ++ tr }
              else none
            | _ => none
          else none
      else none

/-- Evaluates every hypothesis of `honest_tree_verifies`, to a nesting depth of `fuel`
layouts; `some out` = they all hold and `out` is what the theorem says verification
returns (`honestCheck_sound`). -/
def honestCheck (gm : Str → Str → Bool) (w : World) : Nat → Metadata → List (Str × JVal) → Str →
    Option (List (Str × Option Str)) → Str → Option VerifyOut
  | 0, _, _, _, _, _ => none
  | fuel + 1, md, keys, dir, params, stepName =>
    honestCheckWith (fun md' keys' dir' name' => honestCheck gm w fuel md' keys' dir' none name')
      gm w md keys dir params stepName

end InToto
