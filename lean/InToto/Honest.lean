import InToto.Verify
/-!
# Deciding whether a supply chain was carried out honestly (hypotheses of `honest_chain_verifies`)

Definitions only; the theorems are in `Proofs/Honest.lean`. Every step has one
authorised functionary whose link is in place - under the id of the authorised key
(as `in-toto-record` names it) or under the id of one of that key's subkeys (as
`in-toto-run` names it when a gpg signing subkey made the signature) - validly
signed and naming the step.
-/
namespace InToto

/-- What the honest performance of one step left behind. -/
structure StepRecord where
  name : Str
  kid : Str
  /-- the key id in the name of the link file: `kid` or one of the key's subkeys -/
  fileId : Str
  keyJ : JVal
  md : Metadata
  lk : Link

def loadedOf (rs : List StepRecord) : Dict Str (Dict Str Metadata) := rs.map (fun r => (r.name, [(r.fileId, r.md)]))
def chainOf (rs : List StepRecord) : Dict Str (Dict Str Link) := rs.map (fun r => (r.name, [(r.fileId, r.lk)]))
def linksOf (rs : List StepRecord) : Dict Str Link := rs.map (fun r => (r.name, r.lk))

/-- The record of an honestly performed step, if the step was performed that way. -/
def honestRecord (w : World) (l : Layout) (dir : Str) (step : Step) : Option StepRecord :=
  match step.name, step.pubkeys with
  | some name, [kid] =>
    if step.threshold = 1 then
      match Dict.get? l.keys kid with
      | some keyJ =>
        if keyidOf keyJ = .ok kid then
          -- the ids under which the verifier looks: the key's own and those of its subkeys (a gpg key bundle may list
          -- some); a link file lies under exactly one of them
          match (kid :: subkeyIds (some keyJ)).filter
              (fun cid => (loadFile w (pathJoin dir (linkFileName name cid))).isSome) with
          | fid :: more =>
            if more.all (fun x => x = fid) = true then
              match loadFile w (pathJoin dir (linkFileName name fid)) with
              | some (.ok md) =>
                if md.verifySignature w.S w.nowSec keyJ = .ok then
                  match md.getPayload with
                  | .ok (.link lk) =>
                    if lk.name = some name then
                      some { name := name, kid := kid, fileId := fid, keyJ := keyJ, md := md, lk := lk }
                    else none
                  | _ => none
                else none
              | _ => none
            else none
          | [] => none
        else none
      | none => none
    else none
  | _, _ => none

def honestRecords (w : World) (l : Layout) (dir : Str) : List Step → Option (List StepRecord)
  | [] => some []
  | step :: rest =>
    match honestRecord w l dir step, honestRecords w l dir rest with
    | some r, some rs => some (r :: rs)
    | _, _ => none

/-- Evaluates every hypothesis of `honest_chain_verifies`; `some out` = they all
hold and `out` is what the theorem says verification returns. -/
def honestCheck (gm : Str → Str → Bool) (w : World) (md : Metadata) (keys : List (Str × JVal)) (dir : Str)
    (params : Option (List (Str × Option Str))) (stepName : Str) : Option VerifyOut :=
  match gate w md keys params with
  | .error _ => none
  | .ok layout =>
    match honestRecords w layout dir layout.steps with
    | none => none
    | some rs =>
      if (rs.map (·.name)).Nodup then
        match stepItems layout with
        | .error _ => none
        | .ok items =>
          if verifyAllItemRules gm (linksArts (linksOf rs)) items = .ok () then
            match runAllInspections w layout.inspect [] with
            | (.ok inspLinks, tr) =>
              if checkInspections gm layout (linksOf rs) inspLinks = .ok () then
                some { result := getSummaryLink layout (linksOf rs) stepName, trace := tr }
              else none
            | _ => none
          else none
      else none

end InToto
