/-!
# Basic definitions shared by the in-toto model

Strings are modelled as `List Char` (`Str`), Python dicts as ordered
association lists with dict semantics (`Dict`), Python exceptions as `Except`
with a small error enumeration.  Everything is a total computable function over
core Lean types; nothing outside core is imported, so the line-protocol driver
links as a plain executable.
-/
namespace InToto

/-- Strings of the model. -/
abbrev Str := List Char

/-- Convenience: a string literal as `Str`. -/
abbrev lit (s : String) : Str := s.toList

/-- Python exception classes that the properties speak about (coarse elsewhere). -/
inductive Err where
  | format            -- securesystemslib.exceptions.FormatError (malformed metadata / rule / argument)
  | invalidMetadata   -- in_toto.exceptions.InvalidMetadata
  | signature         -- SignatureVerificationError
  | expired           -- LayoutExpiredError
  | linkNotFound      -- LinkNotFoundError
  | threshold         -- ThresholdVerificationError
  | rule              -- RuleVerificationError
  | badReturn         -- BadReturnValueError
  | timeout           -- subprocess.TimeoutExpired
  | keyError          -- KeyError escaping (e.g. MATCH rule on a re-joined path that is no artifact)
  | indexError        -- IndexError escaping (reduce_chain_links on a step without links)
  | prefix            -- PrefixError
  | value             -- ValueError
  | recursion         -- fuel exhausted (RecursionError in the code)
  | decode            -- UnicodeDecodeError
  | os                -- OSError and subclasses
  | attribute         -- AttributeError
  | typeError         -- TypeError
  | keyExpired        -- securesystemslib KeyExpirationError
  | other             -- any other exception class
  deriving DecidableEq, Repr, Inhabited

def Err.name : Err → String
  | .format => "FormatError" | .invalidMetadata => "InvalidMetadata"
  | .signature => "SignatureVerificationError" | .expired => "LayoutExpiredError"
  | .linkNotFound => "LinkNotFoundError" | .threshold => "ThresholdVerificationError"
  | .rule => "RuleVerificationError" | .badReturn => "BadReturnValueError"
  | .timeout => "TimeoutExpired" | .keyError => "KeyError" | .indexError => "IndexError"
  | .prefix => "PrefixError" | .value => "ValueError" | .recursion => "RecursionError"
  | .decode => "UnicodeDecodeError" | .os => "OSError" | .attribute => "AttributeError"
  | .typeError => "TypeError" | .keyExpired => "KeyExpirationError" | .other => "Exception"

deriving instance DecidableEq for Except

/-! ## Ordered dictionaries -/

/-- A Python dict: insertion-ordered association list. The invariant "keys are
distinct" is *not* part of the type; it is stated where it is needed. -/
abbrev Dict (κ : Type) (α : Type) := List (κ × α)

namespace Dict
variable {κ α : Type} [DecidableEq κ]

def get? (d : Dict κ α) (k : κ) : Option α := (d.find? (fun p => p.1 = k)).map (·.2)
def contains (d : Dict κ α) (k : κ) : Bool := d.any (fun p => p.1 = k)
def keys (d : Dict κ α) : List κ := d.map (·.1)
def values (d : Dict κ α) : List α := d.map (·.2)

/-- `d[k] = v`: replace in place when present, append otherwise. -/
def insert : Dict κ α → κ → α → Dict κ α
  | [], k, v => [(k, v)]
  | (k', v') :: r, k, v => if k' = k then (k, v) :: r else (k', v') :: insert r k v

/-- `d.update(e)` -/
def update (d e : Dict κ α) : Dict κ α := e.foldl (fun acc p => insert acc p.1 p.2) d

/-- Python `==` on dicts whose values have decidable equality: same key set,
same value under every key; insertion order is irrelevant. -/
def eqv [DecidableEq α] (d e : Dict κ α) : Bool :=
  d.all (fun p => e.get? p.1 = some p.2) && e.all (fun p => d.get? p.1 = some p.2)

end Dict

/-! ## Loops that stop at the first exception -/

/-- `[f(x) for x in l]`, aborting at the first exception. -/
def mapE {α β : Type} (f : α → Except Err β) : List α → Except Err (List β)
  | [] => .ok []
  | x :: r =>
    match f x with
    | .error e => .error e
    | .ok y =>
      match mapE f r with
      | .error e => .error e
      | .ok ys => .ok (y :: ys)

/-- `for x in l: f(x)`, aborting at the first exception. -/
def allE {α : Type} (f : α → Except Err Unit) : List α → Except Err Unit
  | [] => .ok ()
  | x :: r =>
    match f x with
    | .error e => .error e
    | .ok _ => allE f r

/-- `set(l)` as a duplicate-free list (`len(set(l))` is its length). -/
def dedup {α : Type} [DecidableEq α] : List α → List α
  | [] => []
  | a :: r => if r.contains a then dedup r else a :: dedup r

/-! ## Small string helpers (on `List Char`) -/

/-- ASCII lower-casing. `str.lower()` agrees with it on every string whose
lower-cased form is a keyword (see DESIGN C17). -/
def lowerChar (c : Char) : Char :=
  if 'A' ≤ c ∧ c ≤ 'Z' then Char.ofNat (c.toNat + 32) else c
def lower (s : Str) : Str := s.map lowerChar

def upperChar (c : Char) : Char :=
  if 'a' ≤ c ∧ c ≤ 'z' then Char.ofNat (c.toNat - 32) else c
def upper (s : Str) : Str := s.map upperChar

/-- `s.startswith(p)` -/
def startsWith (s p : Str) : Bool := p.isPrefixOf s

/-- `'{:.8}'.format(s)` -/
def trunc8 (s : Str) : Str := s.take 8

/-- `sep.join(parts)` -/
def joinWith (sep : Str) : List Str → Str
  | [] => []
  | [x] => x
  | x :: y :: r => x ++ sep ++ joinWith sep (y :: r)

/-- `s.replace('\\', '/')` -/
def backslashToSlash (s : Str) : Str := s.map (fun c => if c = '\\' then '/' else c)

/-- Two-argument `os.path.join(a, b)` on POSIX. -/
def pathJoin (a b : Str) : Str :=
  if b.head? = some '/' then b
  else if a = [] ∨ a.getLast? = some '/' then a ++ b
  else a ++ '/' :: b

/-- `s.split('/')` -/
def splitSlash : Str → List Str
  | [] => [[]]
  | c :: rest =>
    match splitSlash rest with
    | [] => [[c]]          -- unreachable: the result is never empty
    | h :: t => if c = '/' then [] :: h :: t else (c :: h) :: t

/-- The component loop of `posixpath.normpath`; `acc` holds the kept components, last first. -/
def normComps (absolute : Bool) : List Str → List Str → List Str
  | [], acc => acc.reverse
  | comp :: rest, acc =>
    if comp = [] ∨ comp = ['.'] then normComps absolute rest acc
    else if comp ≠ ['.', '.'] ∨ (!absolute ∧ acc = []) ∨ acc.head? = some ['.', '.'] then
      normComps absolute rest (comp :: acc)
    else normComps absolute rest acc.tail

/-- `posixpath.normpath` -/
def normpath (path : Str) : Str :=
  if path = [] then ['.']
  else
    let slashes : Nat :=
      match path with
      | '/' :: '/' :: '/' :: _ => 1
      | '/' :: '/' :: _ => 2
      | '/' :: _ => 1
      | _ => 0
    let body := joinWith ['/'] (normComps (slashes ≠ 0) (splitSlash path) [])
    let res := List.replicate slashes '/' ++ body
    if res = [] then ['.'] else res

/-- `str(n)` for a natural number. -/
def natDigits (n : Nat) : Str := (Nat.toDigits 10 n)

/-- `str(n)` for an integer. -/
def intStr : Int → Str
  | .ofNat n => natDigits n
  | .negSucc n => '-' :: natDigits (n + 1)

def isHexChar (c : Char) : Bool :=
  ('0' ≤ c ∧ c ≤ '9') ∨ ('a' ≤ c ∧ c ≤ 'f') ∨ ('A' ≤ c ∧ c ≤ 'F')

/-- `fullmatch('^[0-9a-fA-F]+$', s)`; note `$` also matches before a trailing
newline in Python, but `fullmatch` anchors at the very end, so no. -/
def isHex (s : Str) : Bool := s ≠ [] ∧ s.all isHexChar

end InToto
