import InToto.Basic
/-!
# Model of `fnmatch.translate` + regular-expression match (CPython 3.12)

`fnmatch.filter(names, pat)` on POSIX keeps the names for which
`re.compile(translate(pat)).match(name)` succeeds.  `parse` mirrors
`translate` (including the chunk logic for ranges inside brackets, the
unclosed-`[` and empty-range quirks); `matchToks` is the match.
-/
namespace InToto.Glob

inductive SetItem where
  | c (ch : Char)
  | r (lo hi : Char)
  deriving DecidableEq, Repr

inductive Tok where
  | star
  | any
  | never
  | lit (c : Char)
  | set (neg : Bool) (items : List SetItem)
  deriving DecidableEq, Repr

def itemMatch (ch : Char) : SetItem → Bool
  | .c x => ch = x
  | .r lo hi => lo ≤ ch ∧ ch ≤ hi

def tokMatch : Tok → Char → Bool
  | .any, _ => true
  | .never, _ => false
  | .lit c, ch => ch = c
  | .set neg items, ch => (items.any (itemMatch ch)) != neg
  | .star, _ => false

/-- After an opening `[`: the text up to the closing `]` (a `]` right after
`[` or `[!` is an ordinary member) and what follows it; `none` if unclosed. -/
def splitBracket (l : List Char) : Option (List Char × List Char) :=
  let (p1, l1) := match l with
    | '!' :: t => (['!'], t)
    | _ => ([], l)
  let (p2, l2) := match l1 with
    | ']' :: t => ([']'], t)
    | _ => ([], l1)
  match l2.dropWhile (· ≠ ']') with
  | [] => none
  | _ :: rest => some (p1 ++ p2 ++ l2.takeWhile (· ≠ ']'), rest)

/-- `stuff.find('-', k)` -/
def findHyphen (stuff : List Char) (k : Nat) : Option Nat :=
  ((stuff.drop k).findIdx? (· = '-')).map (· + k)

/-- The `while True` loop that cuts `stuff` at range hyphens. -/
def chunkLoop (stuff : List Char) : Nat → Nat → Nat → List (List Char) → List (List Char) × Nat
  | 0, i, _, acc => (acc, i)
  | fuel + 1, i, k, acc =>
    match findHyphen stuff k with
    | none => (acc, i)
    | some k' => chunkLoop stuff fuel (k' + 1) (k' + 3) (acc ++ [(stuff.drop i).take (k' - i)])

def appendToLast (cs : List (List Char)) (c : Char) : List (List Char) :=
  match cs.reverse with
  | [] => [[c]]
  | l :: r => (r.reverse) ++ [l ++ [c]]

def chunksOf (stuff : List Char) : List (List Char) :=
  let k0 := if stuff.head? = some '!' then 2 else 1
  let (cs, i) := chunkLoop stuff (stuff.length + 1) 0 k0 []
  let last := stuff.drop i
  if last ≠ [] then cs ++ [last] else appendToLast cs '-'

/-- "Remove empty ranges": right-to-left, merge `chunks[k-1]` and `chunks[k]`
when the range between them would be empty. -/
def mergeEmpty (cs : List (List Char)) : List (List Char) :=
  cs.foldr (fun c acc =>
    match acc with
    | [] => [c]
    | d :: ds =>
      match c.getLast?, d.head? with
      | some x, some y => if x > y then (c.dropLast ++ d.tail) :: ds else c :: d :: ds
      | _, _ => c :: d :: ds) []

/-- Members of the regular-expression set built from the chunks: inside a chunk
every character is literal; between two chunks there is a range from the last
character of the first to the first character of the second. -/
def itemsOfChunks : Option Char → List (List Char) → List SetItem
  | _, [] => []
  | prev, c :: rest =>
    (match prev, c.head? with
      | some lo, some hi => [SetItem.r lo hi]
      | _, _ => [])
    ++ c.map SetItem.c ++ itemsOfChunks c.getLast? rest

def bracketTok (stuff : List Char) : Tok :=
  if ¬ stuff.contains '-' then
    match stuff with
    | [] => .never
    | ['!'] => .any
    | '!' :: body => .set true (body.map .c)
    | body => .set false (body.map .c)
  else
    let cs := mergeEmpty (chunksOf stuff)
    let full := joinWith ['-'] cs
    match full with
    | [] => .never
    | ['!'] => .any
    | _ =>
      match cs with
      | ('!' :: body) :: rest => .set true (itemsOfChunks none (body :: rest))
      | _ => .set false (itemsOfChunks none cs)

/-- `translate`, first pass. Tokens are accumulated in reverse. -/
def parseAux : Nat → List Char → List Tok → List Tok
  | 0, _, acc => acc.reverse
  | _, [], acc => acc.reverse
  | fuel + 1, c :: rest, acc =>
    if c = '*' then
      parseAux fuel rest (if acc.head? = some .star then acc else .star :: acc)
    else if c = '?' then parseAux fuel rest (.any :: acc)
    else if c = '[' then
      match splitBracket rest with
      | none => parseAux fuel rest (.lit '[' :: acc)
      | some (stuff, rest') => parseAux fuel rest' (bracketTok stuff :: acc)
    else parseAux fuel rest (.lit c :: acc)

def parse (pat : List Char) : List Tok := parseAux (pat.length + 1) pat []

/-- Does some suffix of `s` (including `s` itself and `[]`) satisfy `p`? -/
def anySuffix (p : List Char → Bool) : List Char → Bool
  | [] => p []
  | c :: s => p (c :: s) || anySuffix p s

/-- Whole-string match of a token list (`(?s:…)\Z`: `.` matches newlines too). -/
def matchToks : List Tok → List Char → Bool
  | [], s => s.isEmpty
  | .star :: ts, s => anySuffix (matchToks ts) s
  | _ :: _, [] => false
  | t :: ts, c :: s => tokMatch t c && matchToks ts s

/-- `fnmatch.fnmatchcase(name, pat)` -/
def fnmatch (pat name : Str) : Bool := matchToks (parse pat) name

end InToto.Glob
