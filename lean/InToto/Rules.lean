import InToto.Rulelib
import InToto.Glob
/-!
# Model of the artifact rule engine (`verifylib.verify_*_rule`,
`verify_item_rules`, `verify_all_item_rules`)

The glob matcher is a parameter `gm pattern name` so that the theorems hold for
any matcher; the driver instantiates it with `Glob.fnmatch`.
The artifact queue (a Python `set`) is a list of paths; only membership is
observable.
-/
namespace InToto

/-- A hash record `{"sha256": "…", …}`. -/
abbrev HashRec := Dict Str Str
/-- `materials` / `products` of a link: path ↦ hash record. -/
abbrev Artifacts := Dict Str HashRec

/-- What the rule engine reads of a link. -/
structure LinkArts where
  materials : Artifacts
  products : Artifacts
  deriving Repr, DecidableEq

def LinkArts.get (l : LinkArts) : DestType → Artifacts
  | .materials => l.materials
  | .products => l.products

/-- Python `==` on two hash records. -/
def hashEq (a b : HashRec) : Bool := Dict.eqv a b

/-- `os.path.join(prefix, '').replace('\\', '/')` -/
def normPrefix (p : Str) : Str := backslashToSlash (pathJoin p [])

/-- `os.path.join(prefix, path).replace('\\', '/')` when the prefix is non-empty. -/
def rejoin (pre path : Str) : Str :=
  if pre = [] then path else backslashToSlash (pathJoin pre path)

/-- The queue entries below the source prefix, with the prefix removed. -/
def stripPrefix (sp : Str) (queue : List Str) : List Str :=
  if sp = [] then queue
  else queue.filterMap (fun p =>
    if startsWith p (normPrefix sp) then some (p.drop (normPrefix sp).length) else none)

/-- One iteration of the MATCH loop: `none` = KeyError on the source lookup,
`some none` = not consumed, `some (some p)` = `p` consumed. -/
def matchOne (sp dp : Str) (src dest : Artifacts) (path : Str) : Option (Option Str) :=
  match src.get? (rejoin sp path) with
  | none => none
  | some sa =>
    match dest.get? (rejoin dp path) with
    | none => some none
    | some da => if hashEq sa da then some (some (rejoin sp path)) else some none

/-- `[f x for x in l]` where any `none` (an exception) aborts the whole loop. -/
def allSome {α β : Type} (f : α → Option β) : List α → Option (List β)
  | [] => some []
  | x :: xs =>
    match f x, allSome f xs with
    | some y, some ys => some (y :: ys)
    | _, _ => none

/-- `verify_match_rule`: the set of consumed paths. -/
def verifyMatchRule (gm : Str → Str → Bool) (pattern sp dp : Str) (dt : DestType) (dn : Str)
    (queue : List Str) (src : Artifacts) (links : Dict Str LinkArts) : Except Err (List Str) :=
  match links.get? dn with
  | none => .ok []
  | some dl =>
    let cands := (stripPrefix sp queue).filter (gm pattern)
    match allSome (matchOne sp dp src (dl.get dt)) cands with
    | none => .error .keyError
    | some rs => .ok (rs.filterMap id)

/-- The defining condition of a generic consuming rule on one path. -/
def genericCond (g : GenericType) (item : LinkArts) (p : Str) : Bool :=
  match g with
  | .create => item.products.contains p && !item.materials.contains p
  | .delete => item.materials.contains p && !item.products.contains p
  | .modify =>
    match item.materials.get? p, item.products.get? p with
    | some m, some q => !hashEq m q
    | _, _ => false
  | .allow => true
  | .disallow => false
  | .require => false

/-- Apply one unpacked rule to the queue: the new queue, or the error raised. -/
def applyRule (gm : Str → Str → Bool) (links : Dict Str LinkArts) (item : LinkArts)
    (arts : Artifacts) (queue : List Str) : RuleData → Except Err (List Str)
  | .match_ pattern sp dp dt dn =>
    match verifyMatchRule gm pattern sp dp dt dn queue arts links with
    | .error e => .error e
    | .ok consumed => .ok (queue.filter (fun p => !consumed.contains p))
  | .generic .disallow pattern =>
    if queue.any (gm pattern) then .error .rule else .ok queue
  | .generic .require name =>
    if queue.contains name then .ok queue else .error .rule
  | .generic g pattern =>
    .ok (queue.filter (fun p => !(gm pattern p && genericCond g item p)))

/-- The `for rule in rules` loop of `verify_item_rules`. -/
def applyRules (gm : Str → Str → Bool) (links : Dict Str LinkArts) (item : LinkArts)
    (arts : Artifacts) : List (List Str) → List Str → Except Err (List Str)
  | [], queue => .ok queue
  | rule :: rest, queue =>
    match unpackStrs rule with
    | .error e => .error e
    | .ok rd =>
      match applyRule gm links item arts queue rd with
      | .error e => .error e
      | .ok queue' => applyRules gm links item arts rest queue'

/-- `verify_item_rules(source_name, source_type, rules, links)`; returns the
final queue (the code returns nothing; the queue is what its error trace shows). -/
def verifyItemRules (gm : Str → Str → Bool) (name : Str) (ty : DestType)
    (rules : List (List Str)) (links : Dict Str LinkArts) : Except Err (List Str) :=
  match links.get? name with
  | none => .error .keyError
  | some item => applyRules gm links item (item.get ty) rules (item.get ty).keys

/-- What the rule engine reads of a step or inspection. -/
structure RuleItem where
  name : Str
  expectedMaterials : List (List Str)
  expectedProducts : List (List Str)
  deriving Repr, DecidableEq

/-- `verify_all_item_rules(items, links)` -/
def verifyAllItemRules (gm : Str → Str → Bool) (links : Dict Str LinkArts) :
    List RuleItem → Except Err Unit
  | [] => .ok ()
  | it :: rest =>
    match verifyItemRules gm it.name .materials it.expectedMaterials links with
    | .error e => .error e
    | .ok _ =>
      match verifyItemRules gm it.name .products it.expectedProducts links with
      | .error e => .error e
      | .ok _ => verifyAllItemRules gm links rest

end InToto
