import InToto.Basic
/-!
# Exit status of the command-line front ends (`in_toto_*.main`)

The status is a function of the tool and of what happened: a usage error
(argparse or the tool's own argument checks), the library call succeeded, the
library call raised, a signature check failed, the input file could not be
loaded, or — for match-products — the comparison found differences.
-/
namespace InToto

inductive Tool where
  | verify            -- in-toto-verify
  | sign              -- in-toto-sign (signing)
  | signVerify        -- in-toto-sign --verify
  | run               -- in-toto-run
  | recordStart       -- in-toto-record start
  | recordStop        -- in-toto-record stop
  | mock              -- in-toto-mock
  | matchProducts     -- in-toto-match-products
  deriving DecidableEq, Repr

inductive CliOutcome where
  | usageError        -- rejected by argparse or by the tool's own argument checks
  | success           -- verify passed / every key verified / trees equal / link written
  | loadFailure       -- the metadata file given could not be loaded
  | sigCheckFailed    -- a signature check failed (SignatureVerificationError)
  | libFailure        -- the library call raised anything else
  | differences       -- match-products: the comparison is not empty
  deriving DecidableEq, Repr

/-- The process exit status. -/
def exitStatus : Tool → CliOutcome → Nat
  | _, .usageError => 2
  | _, .success => 0
  -- in-toto-sign reports everything except a failed signature check as 2
  | .sign, _ => 2
  | .signVerify, .sigCheckFailed => 1
  | .signVerify, _ => 2
  -- everything else: any failure is 1 (match-products lets exceptions escape: the interpreter exits 1)
  | _, _ => 1

end InToto
