import InToto.Basic
/-!
# Exit status of the command-line front ends (`in_toto_*.main`)

The status is a function of the tool and of what happened: a usage error
(argparse or the tool's own argument checks), the library call succeeded, the
library call raised, a signature check failed, the input file could not be
loaded, or — for match-products — the comparison found differences.
-/
namespace InToto

inductive Tool where
  | verify            -- in-toto-verify
  | sign              -- in-toto-sign (signing)
  | signVerify        -- in-toto-sign --verify
  | run               -- in-toto-run
  | recordStart       -- in-toto-record start
  | recordStop        -- in-toto-record stop
  | mock              -- in-toto-mock
  | matchProducts     -- in-toto-match-products
  deriving DecidableEq, Repr

inductive CliOutcome where
  | usageError        -- rejected by argparse or by the tool's own argument checks
  | success           -- verify passed / every key verified / trees equal / link written
  | loadFailure       -- the metadata file given could not be loaded
  | sigCheckFailed    -- a signature check failed (SignatureVerificationError)
  | libFailure        -- the library call raised anything else
  | differences       -- match-products: the comparison is not empty
  deriving DecidableEq, Repr

/-- The process exit status. -/
def exitStatus : Tool → CliOutcome → Nat
  | _, .usageError => 2
  | _, .success => 0
  -- in-toto-sign reports everything except a failed signature check as 2
  | .sign, _ => 2
  | .signVerify, .sigCheckFailed => 1
  | .signVerify, _ => 2
  -- everything else: any failure is 1 (match-products lets exceptions escape: the interpreter exits 1)
  | _, _ => 1


/-! ## The front ends' own argument checks (`main()` after `parse_args`)

What `argparse` left in the namespace is abstracted to exactly what `main()` looks
at; `argparseOk = false` stands for a command line `argparse` itself rejected
(missing required option, unknown option, bad type): status 2. -/

/-- Python truthiness of an optional string argument: absent and `""` are false. -/
def truthyStr : Option Str → Bool
  | some (_ :: _) => true
  | _ => false

/-- `--gpg [KEYID]` of in-toto-run / in-toto-record: absent (`None`), the bare
flag (`True`), or a key id. -/
inductive GpgArg where
  | absent
  | flag
  | value (s : Str)
  deriving DecidableEq, Repr

def GpgArg.truthy : GpgArg → Bool
  | .flag => true
  | .value (_ :: _) => true
  | _ => false

/-- The three ways to name the signing key. -/
structure KeyArgs where
  key : Option Str            -- --key (deprecated)
  gpg : GpgArg                -- --gpg [KEYID]
  signingKey : Option Str     -- --signing-key
  deriving Repr

/-- `sum([bool(args.key), bool(args.gpg), bool(args.signing_key)]) != 1` is a usage error. -/
def KeyArgs.exactlyOne (a : KeyArgs) : Bool :=
  (truthyStr a.key).toNat + a.gpg.truthy.toNat + (truthyStr a.signingKey).toNat == 1

/-- Whether the library call that follows receives anything to sign with
(`signing_key` / `gpg_keyid` / `gpg_use_default` / `signer`): without it
`in_toto_run` writes no link file. -/
def KeyArgs.signerSupplied (a : KeyArgs) : Bool :=
  truthyStr a.key || a.gpg.truthy || truthyStr a.signingKey

structure RunArgs where
  argparseOk : Bool
  keys : KeyArgs
  noCommand : Bool            -- -x / --no-command
  linkCmd : List Str          -- what follows `--`
  deriving Repr

/-- in-toto-run proceeds to the library call. -/
def RunArgs.usageOk (a : RunArgs) : Bool :=
  a.argparseOk && a.keys.exactlyOne && (a.noCommand || !a.linkCmd.isEmpty)

structure RecordArgs where
  argparseOk : Bool           -- includes the sub-command being `start` or `stop`
  keys : KeyArgs
  deriving Repr

def RecordArgs.usageOk (a : RecordArgs) : Bool := a.argparseOk && a.keys.exactlyOne

/-- in-toto-verify: the three key options are lists (`nargs="+"`) or absent. -/
structure VerifyArgs where
  argparseOk : Bool
  layoutKeys : Option (List Str)
  gpg : Option (List Str)
  verificationKeys : Option (List Str)
  deriving Repr

def truthyList : Option (List Str) → Bool
  | some (_ :: _) => true
  | _ => false

def VerifyArgs.usageOk (a : VerifyArgs) : Bool :=
  a.argparseOk && (truthyList a.layoutKeys || truthyList a.gpg || truthyList a.verificationKeys)

/-- in-toto-sign. `key` is `nargs="+"`, `gpg` is `nargs="*"` (so `some []` = the bare flag). -/
structure SignArgs where
  argparseOk : Bool
  verify : Bool
  append : Bool
  output : Option Str
  key : Option (List Str)
  gpg : Option (List Str)
  deriving Repr

/-- The checks before the file is loaded. -/
def SignArgs.usageOkBeforeLoad (a : SignArgs) : Bool :=
  a.argparseOk && !(a.verify && (a.append || truthyStr a.output)) && (a.key.isNone != a.gpg.isNone) &&
  !(a.verify && a.gpg == some [])

def moreThanOne : Option (List Str) → Bool
  | some (_ :: _ :: _) => true
  | _ => false

/-- The checks after the file is loaded (they apply to link metadata only). -/
def SignArgs.usageOkAfterLoad (a : SignArgs) (isLink : Bool) : Bool :=
  !isLink || (!(moreThanOne a.key || moreThanOne a.gpg) && !a.append)

/-- What the file given to in-toto-sign turned out to be. -/
inductive SignFile where
  | unloadable
  | link
  | layout
  deriving DecidableEq, Repr

/-- The outcome class of in-toto-sign given what the signing / verifying itself
would do (`work`) once all checks have passed. -/
def signOutcome (a : SignArgs) (f : SignFile) (work : CliOutcome) : CliOutcome :=
  if !a.usageOkBeforeLoad then .usageError
  else match f with
    | .unloadable => .loadFailure
    | .link => if a.usageOkAfterLoad true then work else .usageError
    | .layout => work

/-- Outcome classes of the other front ends: a usage error unless the checks
pass, then whatever the library call does. -/
def frontOutcome (usageOk : Bool) (work : CliOutcome) : CliOutcome := if usageOk then work else .usageError

def runStatus (a : RunArgs) (work : CliOutcome) : Nat := exitStatus .run (frontOutcome a.usageOk work)
def recordStatus (t : Tool) (a : RecordArgs) (work : CliOutcome) : Nat := exitStatus t (frontOutcome a.usageOk work)
def verifyStatus (a : VerifyArgs) (work : CliOutcome) : Nat := exitStatus .verify (frontOutcome a.usageOk work)
def signStatus (a : SignArgs) (f : SignFile) (work : CliOutcome) : Nat :=
  exitStatus (if a.verify then .signVerify else .sign) (signOutcome a f work)


/-! ## in-toto-sign: what is signed and where it is written (`_sign_and_dump_metadata`) -/

/-- The key ids of the signature list after the call: the given keys' signatures are
appended to the existing ones (`--append`) or replace them. -/
def signKeyids (append : Bool) (present given : List Str) : List Str :=
  (if append then present else []) ++ given

inductive PayloadKind where
  | link (name : Str)
  | layout
  deriving DecidableEq, Repr

/-- Where the signed metadata is written: `--output` if given (and not empty); a
link under `<name>.<first 8 of the last signing key id>.link`; a layout over the
input file. -/
def signOutPath (output : Option Str) (file : Str) (kind : PayloadKind) (lastKeyid : Option Str) : Option Str :=
  if truthyStr output then output
  else
    match kind with
    | .link name => lastKeyid.map (fun k => name ++ '.' :: trunc8 k ++ lit ".link")
    | .layout => some file


/-! ## in-toto-sign --verify and in-toto-verify: every given key counts -/

/-- `_verify_metadata`: the keys are checked in the order given; the first check that fails
decides (`sigCheckFailed`), a check that raises anything else is a library failure; only if all
pass is the outcome a success. `results` = per key, what its signature check does. -/
def signVerifyOutcome : List CliOutcome → CliOutcome
  | [] => .success
  | .success :: rest => signVerifyOutcome rest
  | o :: _ => o

/-- in-toto-verify: the key dictionary handed to `in_toto_verify` is the union of what the three key
options load (later options add to, never replace, earlier ones; same key id = same entry). -/
def verifyKeyIds (layoutKeys gpg verificationKeys : List Str) : List Str :=
  dedup (layoutKeys ++ gpg ++ verificationKeys)

end InToto
