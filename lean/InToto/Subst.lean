import InToto.Meta
/-!
# Model of parameter substitution (`verifylib.substitute_parameters`,
`formats._check_parameter_dict`) and of the `str.format` subset it relies on:
`{name}`, `{{`, `}}`. Anything else inside a replacement field (`!`, `:`, `.`,
`[`) is outside the modelled subset and yields `Err.other`.
-/
namespace InToto

def isDigits (s : Str) : Bool := s.all (fun c => '0' ≤ c ∧ c ≤ '9')

/-- The value a replacement field stands for. -/
def lookupField (params : Dict Str Str) (name : Str) : Except Err Str :=
  if isDigits name then .error .indexError      -- positional / auto-numbered field, no positional args
  else
    match Dict.get? params name with
    | none => .error .keyError
    | some v => .ok v

/-- Characters that start a conversion, a format spec, attribute or index
access inside a replacement field: outside the modelled subset. -/
def fieldSpecial (c : Char) : Bool := c = '!' || c = ':' || c = '.' || c = '['

/-- `template.format(**params)` on the modelled subset, as one left-to-right
scan. The second argument is `none` outside a replacement field and `some acc`
inside one (`acc` = the field name read so far, reversed). Literal text is
copied, `{{` / `}}` give a brace, `{name}` gives the supplied value **verbatim**:
the scan continues in the *template* behind the closing brace, the value is never
scanned. Errors surface in the order in which the scan meets them. -/
def fmt (params : Dict Str Str) : Str → Option Str → Except Err Str
  | [], none => .ok []
  | [], some _ => .error .value                          -- expected '}' before end of string
  | '{' :: '{' :: rest, none => (fmt params rest none).map ('{' :: ·)
  | '}' :: '}' :: rest, none => (fmt params rest none).map ('}' :: ·)
  | '}' :: _, none => .error .value                      -- Single '}' encountered
  | '{' :: rest, none => fmt params rest (some [])
  | c :: rest, none => (fmt params rest none).map (c :: ·)
  | '}' :: rest, some acc =>
    match lookupField params acc.reverse with
    | .error e => .error e
    | .ok v => (fmt params rest none).map (v ++ ·)
  | '{' :: _, some _ => .error .value                    -- unexpected '{' in field name
  | c :: rest, some acc =>
    if fieldSpecial c then .error .other else fmt params rest (some (c :: acc))

def format (params : Dict Str Str) (template : Str) : Except Err Str := fmt params template none

def isParamNameChar (c : Char) : Bool :=
  ('a' ≤ c ∧ c ≤ 'z') ∨ ('A' ≤ c ∧ c ≤ 'Z') ∨ ('0' ≤ c ∧ c ≤ '9') ∨ c = '_' ∨ c = '-'

/-- `_check_parameter_dict`: names `[a-zA-Z0-9_-]+`, values strings
(`none` = a non-string value). -/
def checkParams (raw : List (Str × Option Str)) : Except Err (Dict Str Str) :=
  mapE (fun (kv : Str × Option Str) =>
    if kv.1 = [] ∨ !kv.1.all isParamNameChar then .error .format
    else match kv.2 with
      | some s => .ok (kv.1, s)
      | none => .error .format) raw

def substRules (params : Dict Str Str) (rules : List (List Str)) : Except Err (List (List Str)) :=
  mapE (fun r => mapE (format params) r) rules

/-- `argv.format(**params)` for the elements of a command list. -/
def substCmd (params : Dict Str Str) (cmd : List JVal) : Except Err (List JVal) :=
  mapE (fun a =>
    match a with
    | .str s => (format params s).map .str
    | _ => .error .attribute) cmd

def substStep (params : Dict Str Str) (s : Step) : Except Err Step :=
  match substRules params s.expectedMaterials with
  | .error e => .error e
  | .ok m =>
    match substRules params s.expectedProducts with
    | .error e => .error e
    | .ok p =>
      match substCmd params s.expectedCommand with
      | .error e => .error e
      | .ok c => .ok { s with expectedMaterials := m, expectedProducts := p, expectedCommand := c }

def substInspection (params : Dict Str Str) (i : Inspection) : Except Err Inspection :=
  match substRules params i.expectedMaterials with
  | .error e => .error e
  | .ok m =>
    match substRules params i.expectedProducts with
    | .error e => .error e
    | .ok p =>
      match substCmd params i.run with
      | .error e => .error e
      | .ok c => .ok { i with expectedMaterials := m, expectedProducts := p, run := c }

/-- In-place loop over a list: items before the first failure are replaced,
the failing one and those after it are left as they were. Returns the list as
it stands afterwards and the error, if any. -/
def substList {α : Type} (f : α → Except Err α) : List α → List α × Option Err
  | [] => ([], none)
  | x :: r =>
    match f x with
    | .error e => (x :: r, some e)
    | .ok y => let (r', e) := substList f r; (y :: r', e)

/-- `substitute_parameters(layout, params)`: the layout object as it stands
after the call (it is modified in place) and the exception raised, if any. -/
def substituteParameters (raw : List (Str × Option Str)) (l : Layout) : Layout × Option Err :=
  match checkParams raw with
  | .error e => (l, some e)
  | .ok params =>
    match substList (substStep params) l.steps with
    | (steps, some e) => ({ l with steps }, some e)
    | (steps, none) =>
      let (inspect, e) := substList (substInspection params) l.inspect
      ({ l with steps, inspect }, e)

end InToto
