import InToto.Meta
/-!
# Model of parameter substitution (`verifylib.substitute_parameters`,
`formats._check_parameter_dict`) and of the `str.format` subset it relies on:
`{name}`, `{{`, `}}`. Anything else inside a replacement field (`!`, `:`, `.`,
`[`) is outside the modelled subset and yields `Err.other`.
-/
namespace InToto

/-- Read a replacement field's name up to the closing `}`. -/
def readField : Str → Str → Except Err (Str × Str)
  | [], _ => .error .value                                   -- expected '}' before end of string
  | '}' :: rest, acc => .ok (acc.reverse, rest)
  | '{' :: _, _ => .error .value                             -- unexpected '{' in field name
  | c :: rest, acc =>
    if c = '!' ∨ c = ':' ∨ c = '.' ∨ c = '[' then .error .other   -- outside the modelled subset
    else readField rest (c :: acc)

def isDigits (s : Str) : Bool := s.all (fun c => '0' ≤ c ∧ c ≤ '9')

/-- The value a replacement field stands for. -/
def lookupField (params : Dict Str Str) (name : Str) : Except Err Str :=
  if isDigits name then .error .indexError      -- positional / auto-numbered field, no positional args
  else
    match Dict.get? params name with
    | none => .error .keyError
    | some v => .ok v

/-- `template.format(**params)` on the modelled subset: one left-to-right pass;
literal text is copied, `{{` / `}}` give a brace, `{name}` gives the supplied
value **verbatim** (the value is never scanned again). Errors surface in the
order in which the scan meets them. `fuel` is the template length. -/
def formatAux (params : Dict Str Str) : Nat → Str → Except Err Str
  | 0, [] => .ok []
  | 0, _ :: _ => .error .other
  | _, [] => .ok []
  | fuel + 1, '{' :: '{' :: rest => (formatAux params fuel rest).map ('{' :: ·)
  | fuel + 1, '}' :: '}' :: rest => (formatAux params fuel rest).map ('}' :: ·)
  | _, '}' :: _ => .error .value                          -- Single '}' encountered
  | fuel + 1, '{' :: rest =>
    match readField rest [] with
    | .error e => .error e
    | .ok (name, rest') =>
      match lookupField params name with
      | .error e => .error e
      | .ok v => (formatAux params fuel rest').map (v ++ ·)
  | fuel + 1, c :: rest => (formatAux params fuel rest).map (c :: ·)

def format (params : Dict Str Str) (template : Str) : Except Err Str :=
  formatAux params template.length template

def isParamNameChar (c : Char) : Bool :=
  ('a' ≤ c ∧ c ≤ 'z') ∨ ('A' ≤ c ∧ c ≤ 'Z') ∨ ('0' ≤ c ∧ c ≤ '9') ∨ c = '_' ∨ c = '-'

/-- `_check_parameter_dict`: names `[a-zA-Z0-9_-]+`, values strings
(`none` = a non-string value). -/
def checkParams (raw : List (Str × Option Str)) : Except Err (Dict Str Str) :=
  raw.mapM (fun (k, v) =>
    if k = [] ∨ !k.all isParamNameChar then .error .format
    else match v with
      | some s => .ok (k, s)
      | none => .error .format)

def substRules (params : Dict Str Str) (rules : List (List Str)) : Except Err (List (List Str)) :=
  rules.mapM (fun r => r.mapM (format params))

/-- `argv.format(**params)` for the elements of a command list. -/
def substCmd (params : Dict Str Str) (cmd : List JVal) : Except Err (List JVal) :=
  cmd.mapM (fun a =>
    match a with
    | .str s => (format params s).map .str
    | _ => .error .attribute)

def substStep (params : Dict Str Str) (s : Step) : Except Err Step := do
  let m ← substRules params s.expectedMaterials
  let p ← substRules params s.expectedProducts
  let c ← substCmd params s.expectedCommand
  pure { s with expectedMaterials := m, expectedProducts := p, expectedCommand := c }

def substInspection (params : Dict Str Str) (i : Inspection) : Except Err Inspection := do
  let m ← substRules params i.expectedMaterials
  let p ← substRules params i.expectedProducts
  let c ← substCmd params i.run
  pure { i with expectedMaterials := m, expectedProducts := p, run := c }

/-- In-place loop over a list: items before the first failure are replaced,
the failing one and those after it are left as they were. Returns the list as
it stands afterwards and the error, if any. -/
def substList {α : Type} (f : α → Except Err α) : List α → List α × Option Err
  | [] => ([], none)
  | x :: r =>
    match f x with
    | .error e => (x :: r, some e)
    | .ok y => let (r', e) := substList f r; (y :: r', e)

/-- `substitute_parameters(layout, params)`: the layout object as it stands
after the call (it is modified in place) and the exception raised, if any. -/
def substituteParameters (raw : List (Str × Option Str)) (l : Layout) : Layout × Option Err :=
  match checkParams raw with
  | .error e => (l, some e)
  | .ok params =>
    match substList (substStep params) l.steps with
    | (steps, some e) => ({ l with steps }, some e)
    | (steps, none) =>
      let (inspect, e) := substList (substInspection params) l.inspect
      ({ l with steps, inspect }, e)

end InToto
